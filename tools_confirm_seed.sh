#!/bin/sh
# usage: tools_confirm_seed.sh <seed dir under /verif/seeded>  (needs patch.diff, demo.py there)
# fresh worktree of /repo HEAD -> apply -> demo must fail -> full tests must pass -> demo passes on /repo
D=$1; N=$(basename $D); W=/tmp/wtc/$N
mkdir -p /tmp/wtc; git -C /repo worktree remove --force $W 2>/dev/null
git -C /repo worktree add -q $W HEAD || exit 9
cd $W && git apply $D/patch.diff || { echo "APPLY-FAIL" > $D/confirm.txt; git -C /repo worktree remove --force $W; exit 9; }
( cd $W && /venv/bin/python $D/demo.py > $D/demo_with.txt 2>&1; echo "demo_with_exit=$?" ) > $D/confirm.txt
( cd $W && /venv/bin/python -m pytest -q -p no:cacheprovider --timeout=900 -x 2>&1 | tail -1 ) >> $D/confirm.txt
( cd /repo && /venv/bin/python $D/demo.py > $D/demo_without.txt 2>&1; echo "demo_without_exit=$?" ) >> $D/confirm.txt
echo "head=$(git -C /repo rev-parse --short HEAD)" >> $D/confirm.txt
git -C /repo worktree remove --force $W
cat $D/confirm.txt

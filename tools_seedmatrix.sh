#!/bin/sh
# every seed against the check of the property it targets (and list what was detected)
cd /verif
for d in ${SEEDS:-seeded/*/}; do
  n=$(basename $d); pid=$(echo $n | cut -c1-3)
  out=$(./tools_seedtest.sh /verif/$d/patch.diff $pid 2>&1 | head -1)
  echo "$n: $out"
  python3 - "$d" "$pid" "$out" <<'PY'
import json,sys,re,os
d,pid,out=sys.argv[1:4]
mp=os.path.join(d,'meta.json')
try: m=json.load(open(mp))
except Exception: m={}
log=open(f'/tmp/seedtest_{pid}.log').read()
fails=re.findall(r'failed obligation ([^:]+?): ',log)
m['property']=pid
m['detected_by']={'check':pid,'result':out.strip(),'exit':int(re.search(r'exit=(\d+)',out).group(1)) if re.search(r'exit=(\d+)',out) else None,
   'failed_obligations_sample':fails[:5],'violation_lines':len(re.findall(r'^VIOLATION',log,re.M)),
   'with_replayed_input': len([l for l in re.findall(r'^VIOLATION.*$',log,re.M) if 'no-failing-input-found' not in l])}
try: m['confirmed']=open(os.path.join(d,'confirm.txt')).read().strip().split('\n')
except Exception: pass
json.dump(m,open(mp,'w'),indent=1)
PY
done
cd /repo && git status --short | head -3

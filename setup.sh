#!/bin/sh
# Build the overlay CPython 3.12 venv: /venv's packages (mashumaro editable + its deps) plus
# z3-solver, cvc5, jsonschema from the offline wheelhouse. Idempotent; offline.
set -e
cd "$(dirname "$0")"
V=.venv
if [ ! -x "$V/bin/python" ] || ! "$V/bin/python" -c "import z3, cvc5, jsonschema, mashumaro" 2>/dev/null; then
  rm -rf "$V"
  /venv/bin/python -m venv "$V"
  PIP_NO_INDEX=1 "$V/bin/pip" install -q --no-index --no-deps --find-links /opt/veriftools/wheels \
      z3-solver cvc5 jsonschema attrs referencing rpds-py jsonschema-specifications
  SP=$("$V/bin/python" -c "import sysconfig;print(sysconfig.get_paths()['purelib'])")
  echo "import site; site.addsitedir('/venv/lib/python3.12/site-packages')" > "$SP/_ov.pth"
fi
"$V/bin/python" -c "import z3, cvc5, jsonschema, mashumaro, sys; print('setup ok', sys.version.split()[0], z3.get_version_string(), mashumaro.__file__)"

"""Type-directed sample values, used only to *replay* a refuted obligation on the real code (a failing
obligation is reported whether or not a sample exposes it: `no-failing-input-found`)."""
from __future__ import annotations

import collections
import dataclasses
import datetime
import decimal
import enum
import fractions
import ipaddress
import os
import pathlib
import re
import types
import typing
import uuid
import zoneinfo

import typing_extensions

NoneType = type(None)

LEAF_SAMPLES = {
    int: [0, 7, -3],
    float: [1.5, 0.0],
    bool: [True, False],
    str: ["", "s"],
    bytes: [b"ab", b""],
    bytearray: [bytearray(b"xy")],
    datetime.datetime: [datetime.datetime(2020, 1, 2, 3, 4, 5), datetime.datetime(2020, 1, 2, 3, 4, 5, tzinfo=datetime.timezone.utc)],
    datetime.date: [datetime.date(2020, 1, 2)],
    datetime.time: [datetime.time(3, 4, 5)],
    datetime.timedelta: [datetime.timedelta(seconds=90), datetime.timedelta(0)],
    datetime.timezone: [datetime.timezone.utc, datetime.timezone(datetime.timedelta(hours=-3, minutes=-30))],
    zoneinfo.ZoneInfo: [],
    uuid.UUID: [uuid.UUID(int=5)],
    decimal.Decimal: [decimal.Decimal("1.50")],
    fractions.Fraction: [fractions.Fraction(1, 3)],
    ipaddress.IPv4Address: [ipaddress.IPv4Address("10.0.0.1")],
    ipaddress.IPv6Address: [ipaddress.IPv6Address("::1")],
    ipaddress.IPv4Network: [ipaddress.IPv4Network("10.0.0.0/8")],
    ipaddress.IPv6Network: [ipaddress.IPv6Network("::/64")],
    ipaddress.IPv4Interface: [ipaddress.IPv4Interface("10.0.0.1/8")],
    ipaddress.IPv6Interface: [ipaddress.IPv6Interface("::1/64")],
    pathlib.PurePath: [pathlib.PurePath("a/b")],
    pathlib.Path: [pathlib.Path("a/b")],
    pathlib.PurePosixPath: [pathlib.PurePosixPath("a/b")],
    pathlib.PosixPath: [pathlib.PosixPath("a/b")],
    pathlib.PureWindowsPath: [pathlib.PureWindowsPath("a\\b")],
    os.PathLike: [pathlib.PurePosixPath("a/b")],
    re.Pattern: [re.compile("a+")],
    NoneType: [None],
}

SEQ_CONCRETE = {
    list: list, collections.abc.Sequence: list, collections.abc.MutableSequence: list, collections.deque: collections.deque,
    set: set, frozenset: frozenset, collections.abc.Set: set, collections.abc.MutableSet: set, collections.abc.Collection: list,
}
MAP_CONCRETE = {
    dict: dict, collections.abc.Mapping: dict, collections.abc.MutableMapping: dict, collections.OrderedDict: collections.OrderedDict,
    collections.defaultdict: None, collections.ChainMap: None, types.MappingProxyType: None, collections.Counter: None,
}


def _strip(t):
    while True:
        o = typing.get_origin(t)
        if o in (typing.Annotated, typing_extensions.Annotated, typing.Final, typing_extensions.Required, typing_extensions.NotRequired):
            t = typing.get_args(t)[0]
        elif hasattr(t, "__supertype__"):
            t = t.__supertype__
        else:
            return t


def instances(t, owner=None, depth=0):
    """a few conforming values of annotation t"""
    t = _strip(t)
    if t in (typing_extensions.Self, getattr(typing, "Self", None)) and owner is not None:
        return [] if depth > 1 else [x for x in dataclass_instances(owner, depth + 1)][:1]
    if isinstance(t, typing.TypeVar):
        if t.__bound__ is not None:
            return instances(t.__bound__, owner, depth)
        if t.__constraints__:
            return instances(t.__constraints__[0], owner, depth)
        return [1, "s"]
    if t is typing.Any or t is object:
        return [1, "s", None, [1]]
    if t is None:
        return [None]
    o = typing.get_origin(t)
    args = typing.get_args(t)
    if o in (typing.Union, types.UnionType):
        out = []
        for a in args:
            out += instances(a, owner, depth)[:2]
        return out
    if o in (typing.Literal, typing_extensions.Literal):
        return list(args)
    if t in LEAF_SAMPLES:
        return list(LEAF_SAMPLES[t])
    if t is typing.Pattern:
        return [re.compile("a+")]
    if isinstance(t, type) and issubclass(t, enum.Enum):
        return list(t)[:2]
    if isinstance(t, type) and issubclass(t, tuple) and hasattr(t, "_fields"):
        hints = typing_extensions.get_type_hints(t, include_extras=True)
        cols = [instances(hints.get(f, typing.Any), owner, depth + 1) or [None] for f in t._fields]
        return [t(*[c[0] for c in cols]), t(*[c[-1] for c in cols])]
    if typing_extensions.is_typeddict(t):
        hints = typing_extensions.get_type_hints(t, include_extras=True)
        full = {k: (instances(v, owner, depth + 1) or [None])[0] for k, v in hints.items()}
        req = {k: v for k, v in full.items() if k in t.__required_keys__}
        return [full, req]
    if isinstance(t, type) and dataclasses.is_dataclass(t):
        return dataclass_instances(t, depth + 1)
    if isinstance(t, type) and hasattr(t, "_serialize") and hasattr(t, "_deserialize"):
        try:
            return [t(0), t(1), t("s")]
        except Exception:
            return []
    if o is tuple or t is tuple:
        if not args:
            return [()] if o is tuple else [(1, "s"), ()]  # Tuple[()] has no arguments but an origin
        if len(args) == 2 and args[1] is Ellipsis:
            el = instances(args[0], owner, depth + 1) or [None]
            return [tuple(el[:2]), ()]
        if args == ((),):
            return [()]
        cols = []
        for a in args:
            if typing.get_origin(a) is typing_extensions.Unpack or typing.get_origin(a) is getattr(typing, "Unpack", None):
                inner = typing.get_args(a)[0]
                ia = typing.get_args(inner)
                el = instances(ia[0], owner, depth + 1) if ia else [1]
                cols.append(("*", el[:2]))
            else:
                cols.append(("1", instances(a, owner, depth + 1) or [None]))
        a1 = []
        a2 = []
        for k, c in cols:
            if k == "*":
                a1 += list(c)
            else:
                a1.append(c[0])
                a2.append(c[-1])
        return [tuple(a1), tuple(a2)]
    base = o or t
    if base in SEQ_CONCRETE:
        el = instances(args[0], owner, depth + 1) if args else [1, "s"]
        conc = SEQ_CONCRETE[base]
        try:
            return [conc(el[:2]), conc()]
        except TypeError:
            return [conc()]
    if base in MAP_CONCRETE:
        ks = instances(args[0], owner, depth + 1) if args else ["k"]
        vs = instances(args[1], owner, depth + 1) if len(args) > 1 else [1]
        if base is collections.Counter:
            ks = instances(args[0], owner, depth + 1) if args else ["k"]
            return [collections.Counter({k: 2 for k in ks[:2]})]
        d = {}
        for i, k in enumerate(ks[:2]):
            try:
                d[k] = vs[i % len(vs)] if vs else None
            except TypeError:
                pass
        if base is collections.defaultdict:
            return [collections.defaultdict(lambda: None, d)]
        if base is collections.ChainMap:
            return [collections.ChainMap(d, {}), collections.ChainMap(dict(list(d.items())[:1]), dict(list(d.items())[1:]))]
        if base is types.MappingProxyType:
            return [types.MappingProxyType(d)]
        return [MAP_CONCRETE[base](d), MAP_CONCRETE[base]()]
    return []


def dataclass_instances(cls, depth=0):
    if depth > 3:
        return []
    try:
        hints = typing_extensions.get_type_hints(cls, include_extras=True)
    except Exception:
        return []
    kw1, kw2 = {}, {}
    for f in dataclasses.fields(cls):
        if not f.init:
            continue
        vals = instances(hints.get(f.name, typing.Any), cls, depth + 1)
        if not vals:
            if f.default is dataclasses.MISSING and f.default_factory is dataclasses.MISSING:
                return []
            continue
        kw1[f.name] = vals[0]
        kw2[f.name] = vals[-1]
    out = []
    for kw in (kw1, kw2):
        try:
            out.append(cls(**kw))
        except Exception:
            pass
    return out


JUNK = [None, 5, "5", "x", 1.5, True, [], {}, [1, 2, 3], ["1", "2"], {"a": 1}, {"1": "2"}, [[1]], [None], {"k": None}]


def mutate(d):
    """foreign variants of an encoded value"""
    out = []
    if isinstance(d, bool):
        out += [int(d), str(d)]
    elif isinstance(d, int):
        out += [str(d), float(d)]
    elif isinstance(d, float):
        out += [str(d), int(d)]
    elif isinstance(d, str):
        out += [d + " ", d.upper()]
    elif isinstance(d, (list, tuple)):
        out += [list(d) + [None], list(d) + list(d), tuple(d), list(d)[:-1], [mutate(x)[0] if mutate(x) else x for x in d]]
        for i in range(min(len(d), 4)):
            for j in FALSY + [None]:
                out.append(list(d[:i]) + [j] + list(d[i + 1:]))
    elif isinstance(d, dict):
        out += [dict(d, extra=1), {k: v for k, v in list(d.items())[:-1]}, {k: (mutate(v)[0] if mutate(v) else v) for k, v in d.items()}, list(d.items())]
        for k in list(d)[:4]:
            for j in FALSY + [None]:
                out.append(dict(d, **{k: j}) if isinstance(k, str) else {**d, k: j})
    return out


FALSY = [0, "", [], {}, False, 0.0]


def same(a, b, depth=0):
    """type-sensitive deep equality"""
    if type(a) is not type(b):
        return False
    if depth > 8:
        return a == b
    if isinstance(a, float) and a != a:
        return b != b
    if isinstance(a, (list, tuple, collections.deque)):
        return len(a) == len(b) and all(same(x, y, depth + 1) for x, y in zip(a, b))
    if isinstance(a, collections.ChainMap):
        return same(a.maps, b.maps, depth + 1)
    if isinstance(a, (dict, types.MappingProxyType)):
        if list(a.keys()) != list(b.keys()) and set(map(repr, a.keys())) != set(map(repr, b.keys())):
            return False
        try:
            return all(k in b and same(a[k], b[k], depth + 1) for k in a) and len(a) == len(b)
        except Exception:
            return a == b
    if isinstance(a, (set, frozenset)):
        return a == b
    if isinstance(a, re.Pattern):
        return a.pattern == b.pattern
    if dataclasses.is_dataclass(a) and not isinstance(a, type):
        return all(same(getattr(a, f.name, None), getattr(b, f.name, None), depth + 1) for f in dataclasses.fields(a))
    try:
        return bool(a == b)
    except Exception:
        return a is b


def _mutables(o, acc=None, depth=0):
    """ids of the mutable containers reachable from o"""
    acc = {} if acc is None else acc
    if depth > 8 or id(o) in acc:
        return acc
    if isinstance(o, (list, dict, set, bytearray, collections.deque, collections.ChainMap)):
        acc[id(o)] = o
    if isinstance(o, collections.ChainMap):
        for m in o.maps:
            _mutables(m, acc, depth + 1)
    elif isinstance(o, (dict, types.MappingProxyType)):
        for k, v in o.items():
            _mutables(v, acc, depth + 1)
    elif isinstance(o, (list, tuple, set, frozenset, collections.deque)):
        for v in o:
            _mutables(v, acc, depth + 1)
    elif dataclasses.is_dataclass(o) and not isinstance(o, type):
        for f in dataclasses.fields(o):
            _mutables(getattr(o, f.name, None), acc, depth + 1)
    return acc


def shared_mutables(a, b):
    """mutable containers reachable from both a and b"""
    ma, mb = _mutables(a), _mutables(b)
    return [ma[i] for i in ma if i in mb]

"""C06 / C20: JSON Schema generation.

C06 - the schema accepts everything the serializer produces. Deductive argument per type T:
  (1) packers |= REF_ENC(T)                       (C02 obligations, discharged there)
  (2) SHAPE(T) = the set of JSON documents REF_ENC(T) can produce after a JSON round trip, written
      from the documented basic form as a document *shape* (unbounded lengths, arbitrary scalars)
  (3) S_T = build_json_schema(T) computed by the real builder;  obligation:  SHAPE(T) <= L(S_T),
      decided by a structural subsumption checker implementing Draft 2020-12 validation semantics
      for the keywords mashumaro emits (type, enum, const, pattern, anyOf, $ref/$defs, items,
      prefixItems, minItems, maxItems, uniqueItems, properties, required, additionalProperties,
      propertyNames); `format` is annotation-only. Array lengths are intervals with infinity.
A bounded cross-check validates concrete serialized samples with the `jsonschema` package.
C20 - total / well formed / closed: enumerated obligations on every schema produced (see check20).
"""
from __future__ import annotations

import collections
import dataclasses
import datetime
import decimal
import enum
import fractions
import ipaddress
import itertools
import json
import os
import pathlib
import re
import time
import types
import typing
import uuid
import zoneinfo

import typing_extensions

from . import build, g4, ref, runner

NoneType = type(None)
INF = float("inf")


# ---------------------------------------------------------------------------------------------
# document shapes
# ---------------------------------------------------------------------------------------------
class Shape:
    pass


@dataclasses.dataclass
class SAny(Shape):
    pass


@dataclasses.dataclass
class SNull(Shape):
    pass


@dataclasses.dataclass
class SBool(Shape):
    pass


@dataclasses.dataclass
class SInt(Shape):
    pass


@dataclasses.dataclass
class SNum(Shape):
    pass


@dataclasses.dataclass
class SStr(Shape):
    lang: str = "any"  # any | tz | intstr | floatstr | boolstr | fixed language name


@dataclasses.dataclass
class SEnum(Shape):
    values: list


@dataclasses.dataclass
class SArr(Shape):
    prefix: list
    rest: typing.Optional[Shape]  # variadic middle part (0..inf elements) or None
    suffix: list
    unique: bool = False

    def min_len(self):
        return len(self.prefix) + len(self.suffix)

    def max_len(self):
        return INF if self.rest is not None else self.min_len()

    def shapes_at(self, i):
        """all element shapes that can occur at index i over all admissible documents"""
        if i < len(self.prefix):
            return [self.prefix[i]]
        out = []
        if self.rest is not None:
            out.append(self.rest)
            out.extend(self.suffix)  # with a variadic middle any suffix element can land on index i
        else:
            j = i - len(self.prefix)
            if j < len(self.suffix):
                out.append(self.suffix[j])
        return out

    def shapes_from(self, i):
        out = []
        for k in range(i, len(self.prefix)):
            out.append(self.prefix[k])
        if self.rest is not None:
            out.append(self.rest)
            out.extend(self.suffix)
        else:
            for j in range(max(0, i - len(self.prefix)), len(self.suffix)):
                out.append(self.suffix[j])
        return out


@dataclasses.dataclass
class SObj(Shape):
    required: dict  # key -> shape (always present)
    optional: dict  # key -> shape (may be present)
    extra: typing.Optional[tuple] = None  # (key shape (a string language), value shape): arbitrary further keys


@dataclasses.dataclass
class SUnion(Shape):
    alts: list


def jsonify(v):
    return json.loads(json.dumps(v))


def key_shape(t):
    """how a mapping key of type t looks after a JSON round trip (JSON object keys are strings)"""
    t = ref.strip(t)
    if t is str or t is typing.Any:
        return SStr("any")
    if t is int:
        return SStr("intstr")
    if t is float:
        return SStr("floatstr")
    if t is bool:
        return SStr("boolstr")
    if isinstance(t, type) and issubclass(t, enum.Enum):
        return SEnum([str(jsonify(m.value)) if not isinstance(m.value, str) else m.value for m in t])
    return SStr("any")


def alias_of(cls, f):
    from mashumaro.types import Alias

    hints = typing_extensions.get_type_hints(cls, include_extras=True)
    a = f.metadata.get("alias")
    if a is None:
        t = hints[f.name]
        while typing_extensions.get_origin(t) is typing_extensions.Annotated:
            for m in typing_extensions.get_args(t)[1:]:
                if isinstance(m, Alias):
                    a = m.name
            t = typing_extensions.get_args(t)[0]
    if a is None:
        cfg = getattr(cls, "Config", None)
        a = (getattr(cfg, "aliases", {}) or {}).get(f.name)
    return a


def _owner_nt_as_dict(cls):
    """namedtuple_as_dict in effect for the fields of cls: Config.dialect > Config, else False"""
    from mashumaro.core.const import Sentinel

    cfg = getattr(cls, "Config", None)
    for ns in (getattr(cfg, "dialect", None), cfg):
        v = getattr(ns, "namedtuple_as_dict", Sentinel.MISSING) if ns is not None else Sentinel.MISSING
        if v is not Sentinel.MISSING and v is not None:
            return bool(v)
    return False


_NT_CTX = [False]  # named tuples as dicts at this position?
_NT_OWNER = [False]  # the owner's option: what collection elements fall back to (pack_collection drops the field metadata)


def shape(t, owner=None):
    """SHAPE(T): documents REF_ENC(T) produces (default options, by alias), after JSON round trip"""
    if t in (typing_extensions.Self, getattr(typing, "Self", None)) and owner is not None:
        t = owner
    t = ref.strip(t)
    o = typing_extensions.get_origin(t)
    args = typing_extensions.get_args(t)
    if t is typing.Any or t is object:
        return SAny()
    if o in (typing.Union, types.UnionType):
        return SUnion([shape(a, owner) for a in args])
    if o in (typing.Literal, typing_extensions.Literal):
        vals = []
        for v in ref.RefGen()._literal_values(t):
            if isinstance(v, enum.Enum):
                vals.append(jsonify(v.value))
            elif isinstance(v, bytes):
                from base64 import encodebytes

                vals.append(encodebytes(v).decode())
            else:
                vals.append(v)
        return SEnum(vals)
    if t is NoneType or t is None:
        return SNull()
    if t is bool:
        return SBool()
    if t is int:
        return SInt()
    if t is float:
        return SNum()
    if t is str:
        return SStr()
    if t is datetime.timedelta:
        return SNum()
    if t is datetime.timezone:
        return SStr("tz")
    if t in (datetime.datetime, datetime.date, datetime.time, uuid.UUID, decimal.Decimal, fractions.Fraction, zoneinfo.ZoneInfo, bytes, bytearray) or t in ref.IP_TYPES:
        return SStr()
    if t is os.PathLike or (isinstance(t, type) and issubclass(t, os.PathLike)):
        return SStr()
    if t in (typing.Pattern, re.Pattern) or o is re.Pattern:
        return SStr()
    if isinstance(t, type) and issubclass(t, enum.Flag):
        # every combination of members is a valid value of a Flag
        vals = set()
        members = list(t)
        for r in range(0, len(members) + 1):
            for combo in itertools.combinations(members, r):
                v = t(0)
                for m in combo:
                    v |= m
                vals.add(v.value)
        return SEnum(sorted(vals))
    if isinstance(t, type) and issubclass(t, enum.Enum):
        return SEnum([jsonify(m.value) for m in t])
    base = o if o is not None else t
    if dataclasses.is_dataclass(base):
        hints = typing_extensions.get_type_hints(base, include_extras=True)
        if o is not None and args:
            params = getattr(base, "__parameters__", ())
            sub = dict(zip(params, args))
            hints = {k: _subst(v, sub) for k, v in hints.items()}
        req = {}
        for f in dataclasses.fields(base):
            if f.metadata.get("serialize") == "omit":
                continue
            k = alias_of(base, f) or f.name
            # named tuples inside this field: the field's engine (as_dict / as_list) over the owner's option
            eng_ = f.metadata.get("serialize")
            if callable(eng_) and eng_ not in (str, int, float, bool):
                # a field-level serializer: its declared return type is what the field holds (A2)
                import inspect as _inspect

                ra = _inspect.signature(eng_).return_annotation
                if ra is _inspect.Signature.empty or isinstance(ra, str):
                    raise ref.Unsupported("field serializer without an evaluated return annotation")
                req[k] = shape(ra, base)
                continue
            _NT_OWNER.append(_owner_nt_as_dict(base))
            _NT_CTX.append(True if eng_ == "as_dict" else False if eng_ == "as_list" else _NT_OWNER[-1])
            try:
                req[k] = shape(hints[f.name], base)
            finally:
                _NT_CTX.pop()
                _NT_OWNER.pop()
        return SObj(req, {}, None)
    if ref.is_namedtuple(base):
        hints = typing_extensions.get_type_hints(base)
        if _NT_CTX[-1]:
            return SObj({f: shape(hints.get(f, typing.Any), owner) for f in base._fields}, {}, None)
        return SArr([shape(hints.get(f, typing.Any), owner) for f in base._fields], None, [])
    if ref.is_typeddict(base):
        hints = typing_extensions.get_type_hints(base)
        keys = list(hints)
        req = [k for k in keys if k in getattr(base, "__required_keys__", keys)]
        opt = [k for k in keys if k in getattr(base, "__optional_keys__", ())]
        return SObj({k: shape(hints[k], owner) for k in req}, {k: shape(hints[k], owner) for k in opt}, None)
    if base in (tuple, typing.Tuple):
        if not args:
            if t in (tuple, typing.Tuple):
                return SArr([], SAny(), [])
            return SArr([], None, [])
        if len(args) == 1 and args[0] == ():
            return SArr([], None, [])
        if len(args) == 2 and args[1] is Ellipsis:
            return SArr([], shape(args[0], owner), [])
        prefix, suffix, rest = [], [], None
        seen = False
        for a in args:
            if ref._is_unpack(a):
                inner = shape(ref._unpacked(a), owner)
                if not isinstance(inner, SArr):
                    raise ref.Unsupported("unpack of a non-tuple")
                if seen:
                    raise ref.Unsupported("two unpacks")
                seen = True
                prefix += inner.prefix if inner.rest is not None or True else []
                rest = inner.rest
                suffix += inner.suffix
                if inner.rest is None:
                    # a fixed-length unpacked tuple contributes its items in place
                    pass
            elif not seen:
                prefix.append(shape(a, owner))
            else:
                suffix.append(shape(a, owner))
        return SArr(prefix, rest, suffix)
    if isinstance(base, type):
        _NT_CTX.append(_NT_OWNER[-1])  # elements of a collection: the field's engine no longer applies
        try:
            return _collection_shape(base, args, owner)
        finally:
            _NT_CTX.pop()
    raise ref.Unsupported(f"no shape for {t!r}")


def _collection_shape(base, args, owner):
    if True:
        if base is collections.ChainMap:
            kt = args[0] if args else typing.Any
            vt = args[1] if len(args) > 1 else typing.Any
            return SArr([], SObj({}, {}, (key_shape(kt), shape(vt, owner))), [])
        if base is collections.Counter:
            return SObj({}, {}, (key_shape(args[0] if args else typing.Any), SInt()))
        if issubclass(base, collections.abc.Mapping) or base is collections.abc.Mapping:
            kt = args[0] if args else typing.Any
            vt = args[1] if len(args) > 1 else typing.Any
            return SObj({}, {}, (key_shape(kt), shape(vt, owner)))
        if issubclass(base, collections.abc.Collection):
            el = shape(args[0], owner) if args else SAny()
            return SArr([], el, [], unique=issubclass(base, collections.abc.Set))
    raise ref.Unsupported(f"no shape for {base!r}")


def _subst(t, sub):
    if t in sub:
        return sub[t]
    o = typing_extensions.get_origin(t)
    args = typing_extensions.get_args(t)
    if o is None or not args:
        return t
    try:
        new = tuple(_subst(a, sub) for a in args)
        if o is typing.Union:
            return typing.Union[new]
        return t.copy_with(new) if hasattr(t, "copy_with") else o[new]
    except Exception:
        return t


# ---------------------------------------------------------------------------------------------
# subsumption: SHAPE <= L(schema)
# ---------------------------------------------------------------------------------------------
TZ_STRINGS = None


def tz_strings():
    global TZ_STRINGS
    if TZ_STRINGS is None:
        out = ["UTC"]
        for m in range(-1439, 1440):
            if m == 0:
                continue
            out.append(datetime.timezone(datetime.timedelta(minutes=m)).tzname(None))
        TZ_STRINGS = out
    return TZ_STRINGS


class Sub:
    def __init__(self, root, defs, prefix):
        self.root = root
        self.defs = defs
        self.prefix = prefix
        self.depth = 0

    def resolve(self, ref_):
        if not ref_.startswith(self.prefix + "/"):
            return None, f"$ref {ref_!r} does not start with the configured prefix {self.prefix!r}"
        name = ref_[len(self.prefix) + 1:]
        if name not in self.defs:
            return None, f"$ref {ref_!r} names no collected definition"
        return self.defs[name], None

    def chk(self, schema, sh, where="$"):
        """problems of: every document of shape sh validates against schema"""
        self.depth += 1
        try:
            if self.depth > 60:
                return []
            return self._chk(schema, sh, where)
        finally:
            self.depth -= 1

    def _chk(self, schema, sh, where):
        if schema is True or schema == {} or schema is None:
            return []
        if schema is False:
            return [f"{where}: schema false"]
        if isinstance(sh, SUnion):
            out = []
            for a in sh.alts:
                out += self.chk(schema, a, where)
            return out
        if "$ref" in schema:
            tgt, err = self.resolve(schema["$ref"])
            if err:
                return [f"{where}: {err}"]
            rest = {k: v for k, v in schema.items() if k != "$ref"}
            return self.chk(tgt, sh, where) + (self.chk(rest, sh, where) if rest else [])
        probs = []
        if "anyOf" in schema:
            if isinstance(sh, SAny):
                # an arbitrary document is accepted iff some branch accepts every document
                if not any(not self.chk(b, sh, where) for b in schema["anyOf"]):
                    probs.append(f"{where}: no branch of anyOf accepts an arbitrary document")
            else:
                alts = [self.chk(b, sh, where) for b in schema["anyOf"]]
                if all(a for a in alts):
                    # element-wise alternative for finite enumerations
                    if isinstance(sh, SEnum) and all(any(not self.chk(b, SEnum([v]), where) for b in schema["anyOf"]) for v in sh.values):
                        pass
                    else:
                        probs.append(f"{where}: no anyOf branch accepts {sh}: " + " | ".join(a[0] for a in alts)[:300])
        if isinstance(sh, SAny):
            restricting = [k for k in ("type", "enum", "const", "pattern", "properties", "required", "items", "prefixItems", "minItems", "maxItems", "anyOf")
                           if k in schema and k != "anyOf"]
            if restricting:
                probs.append(f"{where}: an arbitrary (Any) value meets restricting keywords {restricting}")
            return probs
        # ---- type
        ty = schema.get("type")
        if ty is not None:
            tys = ty if isinstance(ty, list) else [ty]
            need = self._types(sh)
            for n in need:
                if not any(self._type_ok(n, t) for t in tys):
                    probs.append(f"{where}: type {ty!r} rejects a {n} value")
        # ---- enum / const
        if "enum" in schema or "const" in schema:
            allowed = schema["enum"] if "enum" in schema else [schema["const"]]
            if isinstance(sh, SEnum):
                for v in sh.values:
                    if not any(_json_eq(v, a) for a in allowed):
                        probs.append(f"{where}: value {v!r} is not in enum/const {allowed!r}")
            elif isinstance(sh, SNull):
                if not any(a is None for a in allowed):
                    probs.append(f"{where}: null is not in enum {allowed!r}")
            elif isinstance(sh, SBool):
                if not (any(a is True for a in allowed) and any(a is False for a in allowed)):
                    probs.append(f"{where}: enum {allowed!r} does not contain both booleans")
            else:
                probs.append(f"{where}: enum/const {allowed!r} cannot contain every {type(sh).__name__[1:]} value")
        # ---- strings
        if "pattern" in schema:
            if isinstance(sh, SStr) and sh.lang == "tz":
                rx = re.compile(schema["pattern"])
                bad = [s for s in tz_strings() if not rx.search(s)]
                if bad:
                    probs.append(f"{where}: pattern {schema['pattern']!r} rejects {bad[0]!r} (+{len(bad) - 1} more)")
            elif isinstance(sh, SEnum):
                rx = re.compile(schema["pattern"])
                for v in sh.values:
                    if isinstance(v, str) and not rx.search(v):
                        probs.append(f"{where}: pattern rejects {v!r}")
            elif isinstance(sh, SStr):
                probs.append(f"{where}: pattern {schema['pattern']!r} cannot accept every string the serializer may emit")
        for k in ("minLength", "maxLength"):
            if k in schema and isinstance(sh, SStr):
                probs.append(f"{where}: {k} restricts arbitrary strings")
        for k in ("minimum", "maximum", "exclusiveMinimum", "exclusiveMaximum", "multipleOf"):
            if k in schema and isinstance(sh, (SInt, SNum)):
                probs.append(f"{where}: {k} restricts arbitrary numbers")
        # ---- arrays
        if isinstance(sh, SArr):
            mn, mx = sh.min_len(), sh.max_len()
            if schema.get("minItems") is not None and schema["minItems"] > mn:
                probs.append(f"{where}: minItems {schema['minItems']} > shortest document {mn}")
            if schema.get("maxItems") is not None and schema["maxItems"] < mx:
                probs.append(f"{where}: maxItems {schema['maxItems']} < longest document {'unbounded' if mx == INF else mx}")
            pi = schema.get("prefixItems") or []
            for i, ps in enumerate(pi):
                for es in sh.shapes_at(i):
                    probs += self.chk(ps, es, f"{where}[{i}]")
            if "items" in schema and schema["items"] is not None:
                for es in sh.shapes_from(len(pi)):
                    probs += self.chk(schema["items"], es, f"{where}[{len(pi)}:]")
            if schema.get("uniqueItems") and not sh.unique:
                probs.append(f"{where}: uniqueItems but the serializer may repeat elements")
        # ---- objects
        if isinstance(sh, SObj):
            for k in schema.get("required") or []:
                if k not in sh.required:
                    probs.append(f"{where}: required key {k!r} is not always emitted")
            props = schema.get("properties") or {}
            ap = schema.get("additionalProperties", True)
            for k, vs in list(sh.required.items()) + list(sh.optional.items()):
                if k in props:
                    probs += self.chk(props[k], vs, f"{where}.{k}")
                elif ap is False:
                    probs.append(f"{where}: emitted key {k!r} is not allowed (additionalProperties false, properties {sorted(props)})")
                elif isinstance(ap, dict):
                    probs += self.chk(ap, vs, f"{where}.{k}")
                if "propertyNames" in schema and schema["propertyNames"]:
                    probs += self.chk(schema["propertyNames"], SEnum([k]), f"{where}.<key {k}>")
            if sh.extra is not None:
                ks, vs = sh.extra
                if ap is False:
                    probs.append(f"{where}: arbitrary keys are emitted but additionalProperties is false")
                elif isinstance(ap, dict):
                    probs += self.chk(ap, vs, f"{where}.*")
                for k, ps in props.items():
                    probs += self.chk(ps, vs, f"{where}.{k}")
                if "propertyNames" in schema and schema["propertyNames"]:
                    probs += self.chk(schema["propertyNames"], ks, f"{where}.<keys>")
            for k in ("minProperties", "maxProperties"):
                if k in schema:
                    probs.append(f"{where}: {k} restricts the number of keys")
        return probs

    @staticmethod
    def _types(sh):
        if isinstance(sh, SNull):
            return ["null"]
        if isinstance(sh, SBool):
            return ["boolean"]
        if isinstance(sh, SInt):
            return ["integer"]
        if isinstance(sh, SNum):
            return ["number"]
        if isinstance(sh, SStr):
            return ["string"]
        if isinstance(sh, SArr):
            return ["array"]
        if isinstance(sh, SObj):
            return ["object"]
        if isinstance(sh, SEnum):
            out = []
            for v in sh.values:
                n = "null" if v is None else "boolean" if isinstance(v, bool) else "integer" if isinstance(v, int) else "number" if isinstance(v, float) else \
                    "string" if isinstance(v, str) else "array" if isinstance(v, list) else "object"
                if n not in out:
                    out.append(n)
            return out
        return []

    @staticmethod
    def _type_ok(need, t):
        return need == t or (need == "integer" and t == "number")


def _json_eq(a, b):
    if isinstance(a, bool) or isinstance(b, bool):
        return a is b
    return a == b and (type(a) is type(b) or (isinstance(a, (int, float)) and isinstance(b, (int, float))))


# ---------------------------------------------------------------------------------------------
# schema family
# ---------------------------------------------------------------------------------------------
SCHEMA_PRELUDE = g4.PRELUDE + '''
from mashumaro.jsonschema import build_json_schema, JSONSchemaBuilder
from mashumaro.jsonschema.dialects import DRAFT_2020_12, OPEN_API_3_1
from mashumaro.jsonschema.models import Context, JSONSchema
from mashumaro.types import Alias

class FL(enum.Flag):
    R = 1
    W = 2

class IF(enum.IntFlag):
    A = 1
    B = 2

@dataclass
class Leaf(DataClassDictMixin):
    i: int
    s: str = "x"
    o: Optional[datetime.date] = None

@dataclass(slots=True)
class SlotsReq:
    a: int
    b: Optional[str] = None

@dataclass(slots=True)
class SlotsReqM(DataClassDictMixin):
    a: int
    l: List[int] = field(default_factory=list)

@dataclass
class Aliased(DataClassDictMixin):
    a: int = field(metadata={"alias": "meta_a"})
    b: Annotated[int, Alias("ann_b")] = 0
    c: int = 1
    d: int = field(default=2, metadata={"alias": "meta_d"})
    class Config(BaseConfig):
        aliases = {"c": "cfg_c", "d": "cfg_d"}
        serialize_by_alias = True

@dataclass
class Outer(DataClassDictMixin):
    leaf: Leaf
    leaves: List[Leaf] = field(default_factory=list)
    m: Dict[str, Leaf] = field(default_factory=dict)
    al: Optional[Aliased] = None

TG = TypeVar("TG")

@dataclass
class Gen(Generic[TG], DataClassDictMixin):
    v: TG

@dataclass
class TwoGen(DataClassDictMixin):
    a: Gen[int]
    b: Gen[str]

def _mk_same(tag, t):
    @dataclass
    class Same(DataClassDictMixin):
        x: t
    return Same
SameA = _mk_same(1, int)
SameB = _mk_same(2, str)

@dataclass
class TwoSame(DataClassDictMixin):
    a: SameA
    b: SameB

NTI = NewType("NTI", int)

class NTS(NamedTuple):
    p: int
    q: str = "d"

class TDS(TypedDict):
    p: int
    q: NotRequired[str]

class _NtD(Dialect):
    namedtuple_as_dict = True

def _ser_years(v) -> List[int]:
    return [v.year]

def _ser_map(v) -> Dict[str, List[int]]:
    return {"y": [v.year]}

@dataclass
class SerOverride(DataClassDictMixin):
    d: datetime.date = field(default=datetime.date(2020, 1, 2), metadata={"serialize": _ser_years})
    m: datetime.date = field(default=datetime.date(2020, 1, 2), metadata={"serialize": _ser_map})

@dataclass
class AnnGen(DataClassDictMixin):
    g: Annotated[Gen[int], "m"]

@dataclass
class NtOptDictEngList(DataClassDictMixin):
    p: NTS = field(default=NTS(1), metadata={"serialize": "as_list"})
    q: NTS = NTS(2)
    class Config(BaseConfig):
        namedtuple_as_dict = True

@dataclass
class NtOptListEngDict(DataClassDictMixin):
    p: NTS = field(default=NTS(1), metadata={"serialize": "as_dict"})
    q: NTS = NTS(2)
    class Config(BaseConfig):
        namedtuple_as_dict = False

@dataclass
class NtEngineOnly(DataClassDictMixin):
    p: NTS = field(default=NTS(1), metadata={"serialize": "as_dict"})
    o: Optional[NTS] = field(default=None, metadata={"serialize": "as_dict"})
    t: Tuple[NTS, int] = field(default=(NTS(4), 1), metadata={"serialize": "as_dict"})
    r: NTS = NTS(3)

@dataclass
class NtItemEngine(DataClassDictMixin):
    q: List[NTS] = field(default_factory=list, metadata={"serialize": "as_dict"})
    m: Dict[str, NTS] = field(default_factory=dict, metadata={"serialize": "as_dict"})

@dataclass
class NtDialectDict(DataClassDictMixin):
    p: NTS = field(default=NTS(1), metadata={"serialize": "as_list"})
    q: Dict[str, NTS] = field(default_factory=dict)
    class Config(BaseConfig):
        dialect = _NtD
'''

SCHEMA_TYPES = [
    "int", "float", "bool", "str", "type(None)", "Any", "datetime.datetime", "datetime.date", "datetime.time", "datetime.timedelta", "datetime.timezone",
    "zoneinfo.ZoneInfo", "uuid.UUID", "decimal.Decimal", "fractions.Fraction", "ipaddress.IPv4Address", "ipaddress.IPv6Network", "pathlib.PurePosixPath",
    "bytes", "bytearray", "E1", "IE", "FL", "IF", "Optional[int]", "Union[int, str]", "Union[int, str, None]", "Literal['a', 1, None]", "Literal[E1.A, b'x']",
    "List[int]", "list", "List[Optional[str]]", "Set[int]", "FrozenSet[str]", "Sequence[datetime.date]", "Deque[int]", "Tuple[int, ...]", "Tuple[int, str]",
    "Tuple[()]", "tuple", "Tuple[int, Unpack[Tuple[str, ...]]]", "Tuple[Unpack[Tuple[str, ...]], int]", "Tuple[int, Unpack[Tuple[str, ...]], float]",
    "Tuple[int, Unpack[Tuple[str, str]]]", "Tuple[int, Unpack[Tuple[str, str]], float]", "Tuple[Unpack[Tuple[int, str]]]", "Tuple[int, int, Unpack[Tuple[str, ...]], float, bool]",
    "Dict[str, int]", "dict", "Dict[int, str]", "Dict[E1, int]", "Mapping[str, Optional[int]]", "collections.OrderedDict[str, int]", "collections.ChainMap[str, int]",
    "collections.Counter[str]", "DefaultDict[str, List[int]]", "NTS", "TDS", "List[NTS]", "Dict[str, TDS]", "NTI", "Annotated[int, 'm']",
    "Leaf", "Aliased", "Outer", "List[Leaf]", "Optional[Leaf]", "Dict[str, Outer]", "Gen[int]", "TwoGen", "TwoSame", "Tuple[Leaf, Leaf]", "Union[Leaf, Aliased]",
    "SlotsReq", "SlotsReqM", "NtOptDictEngList", "NtOptListEngDict", "NtEngineOnly", "NtDialectDict", "NtItemEngine", "SerOverride", "AnnGen",
    "Optional[Any]", "Dict[str, Union[int, Any]]", "List[Optional[Any]]", "Union[str, Any, None]",
    # values that are == in Python but distinct JSON values
    "Literal[1, True]", "Literal[False, 0]", "Literal[True, 1, 'a', 0]", "Literal[0, False, None]", "Literal[1.0, 1]",
]

KNOWN_TAGS = {
    "FL": "flag", "IF": "flag",
    "Tuple[int, Unpack[Tuple[str, str]]]": "unpack-fixed", "Tuple[int, Unpack[Tuple[str, str]], float]": "unpack-fixed", "Tuple[Unpack[Tuple[int, str]]]": "unpack-fixed",
    "Dict[int, str]": "nonstr-keys", "Dict[E1, int]": "",
    "TwoGen": "shared-def", "TwoSame": "shared-def",
    "NtItemEngine": "item-engine", "SerOverride": "item-engine",
    "AnnGen": "annotated-generic",
}


def c06_task(payload):
    pid, texpr = payload
    src = SCHEMA_PRELUDE + f"\nT = {texpr}\n"
    tag = KNOWN_TAGS.get(texpr, "")
    label = f"[{texpr}]" + (f"{{{tag}}}" if tag else "")
    obs = []
    try:
        mod, _ = build.build_module(src)
    except Exception as e:
        return {"obligations": [dict(id=f"{pid}.G10{label}/builds", status="error", detail=f"schema family does not build: {type(e).__name__}: {e}")]}
    try:
        try:
            sh = shape(mod.T)
        except ref.Unsupported as e:
            return {"obligations": [dict(id=f"{pid}.G10{label}/shape", status="undecided", detail=str(e))]}
        for dname in ("DRAFT_2020_12", "OPEN_API_3_1"):
            for all_refs in (False, True):
                oid = f"{pid}.G10{label}/{dname}/{'refs' if all_refs else 'inline'}"
                try:
                    js = mod.build_json_schema(mod.T, dialect=getattr(mod, dname), all_refs=all_refs)
                    doc = js.to_dict()
                except Exception as e:  # noqa
                    obs.append(dict(id=oid, status="refuted", detail=f"build_json_schema raised {type(e).__name__}: {e}"[:300], unit="build_json_schema",
                                    witness={"confirmed": True, "why": f"build_json_schema({texpr}) raised {type(e).__name__}", "source": src}))
                    continue
                d = getattr(mod, dname)
                prefix = d.definitions_root_pointer
                defs = doc.get("$defs") or (doc.get("components", {}) or {}).get("schemas") or {}
                sub = Sub(doc, defs, prefix)
                try:
                    probs = sub.chk(doc, sh)
                    sample_txt = json.dumps(doc)[:500]
                except RecursionError:
                    probs = ["the produced schema nests without bound (recursion limit reached while reading it)"]
                    sample_txt = "<unbounded nesting>"
                ob = dict(id=oid, unit="SHAPE(T) <= L(build_json_schema(T))", status="proved" if not probs else "refuted",
                          detail="; ".join(sorted(set(probs)))[:700], sample=sample_txt + "   ## SHAPE: " + repr(sh)[:300])
                if probs:
                    ob["witness"] = concrete_witness(mod, texpr, doc, dname)
                obs.append(ob)
        # distinct classes / generic specialisations never share one definition
        if any(o["status"] != "proved" and "raised" in o.get("detail", "") for o in obs):
            return {"obligations": obs}  # the schema cannot be built at all: already reported per dialect
        dcs = reachable_dataclasses(mod.T)
        if dcs:
            js = mod.build_json_schema(mod.T, all_refs=True).to_dict()
            defs = js.get("$defs") or {}
            names = {}
            for (origin, args) in dcs:
                names.setdefault(origin.__name__, set()).add((origin, args))
            shared = sorted(n for n, v in names.items() if len(v) > 1)
            miss = sorted(n for n in names if n not in defs)
            ok = not shared and not miss
            obs.append(dict(id=f"{pid}.G10{label}/distinct_defs", status="proved" if ok else "refuted",
                            detail="" if ok else (f"definition name(s) {shared} stand for several distinct classes/specialisations: " + ", ".join(sorted(str(x) for n in shared for x in names[n]))[:300] if shared else f"no definition collected for {miss}")))
        # the 'required' clause for dataclass shapes
        if dataclasses.is_dataclass(mod.T):
            js = mod.build_json_schema(mod.T).to_dict()
            want = [(alias_of(mod.T, f) or f.name) for f in dataclasses.fields(mod.T)
                    if f.default is dataclasses.MISSING and f.default_factory is dataclasses.MISSING]
            got = js.get("required") or []
            obs.append(dict(id=f"{pid}.G10{label}/required", status="proved" if sorted(got) == sorted(want) else "refuted",
                            detail="" if sorted(got) == sorted(want) else f"required {got} differs from the fields without defaults {want}"))
        return {"obligations": obs}
    finally:
        build.drop_module(mod)


def reachable_dataclasses(t, seen=None, sub=None):
    """distinct (origin, type args) dataclass types reachable from t"""
    seen = seen if seen is not None else []
    t = ref.strip(t)
    o = typing_extensions.get_origin(t)
    args = typing_extensions.get_args(t)
    base = o or t
    if dataclasses.is_dataclass(base):
        key = (base, tuple(args))
        if key in seen:
            return seen
        seen.append(key)
        hints = typing_extensions.get_type_hints(base, include_extras=True)
        params = getattr(base, "__parameters__", ())
        s2 = dict(zip(params, args))
        for f in dataclasses.fields(base):
            reachable_dataclasses(_subst(hints[f.name], s2), seen)
        return seen
    for a in args:
        if a is not Ellipsis and not isinstance(a, (str, int, bytes, bool, type(None), enum.Enum)):
            try:
                reachable_dataclasses(a, seen)
            except Exception:
                pass
    return seen


def sample_values(mod, t, depth=0):
    """a few conforming values of type t (bounded cross-check / replay)"""
    import random

    t0 = ref.strip(t)
    o = typing_extensions.get_origin(t0)
    args = typing_extensions.get_args(t0)
    D = datetime
    table = {int: [0, -5, 7], float: [1.5, 2.0], bool: [True, False], str: ["", "x"], NoneType: [None], typing.Any: [1, "a", None, [1]],
             D.datetime: [D.datetime(2020, 1, 2, 3, 4, 5)], D.date: [D.date(2020, 1, 2)], D.time: [D.time(1, 2, 3)], D.timedelta: [D.timedelta(seconds=5)],
             D.timezone: [D.timezone.utc, D.timezone(D.timedelta(minutes=-30)), D.timezone(D.timedelta(hours=5, minutes=30))],
             uuid.UUID: [uuid.UUID(int=1)], decimal.Decimal: [decimal.Decimal("1.5")], fractions.Fraction: [fractions.Fraction(1, 3)],
             bytes: [b"ab"], bytearray: [bytearray(b"x")], zoneinfo.ZoneInfo: [zoneinfo.ZoneInfo("UTC")]}
    if t0 in table:
        return table[t0]
    if t0 in ref.IP_TYPES:
        return [t0("10.0.0.0/8")] if "Network" in t0.__name__ and "4" in t0.__name__ else [t0("::/64")] if "Network" in t0.__name__ else [t0("10.0.0.1")] if "4" in t0.__name__ else [t0("::1")]
    if isinstance(t0, type) and issubclass(t0, os.PathLike):
        return [t0("/a/b")]
    if o in (typing.Union, types.UnionType):
        return [v for a in args for v in sample_values(mod, a, depth + 1)[:2]]
    if o in (typing.Literal, typing_extensions.Literal):
        return list(ref.RefGen()._literal_values(t0))
    if isinstance(t0, type) and issubclass(t0, enum.Flag):
        ms = list(t0)
        return ms + ([ms[0] | ms[1]] if len(ms) > 1 else [])
    if isinstance(t0, type) and issubclass(t0, enum.Enum):
        return list(t0)
    base = o or t0
    if dataclasses.is_dataclass(base):
        hints = typing_extensions.get_type_hints(base, include_extras=True)
        params = getattr(base, "__parameters__", ())
        sub = dict(zip(params, args))
        kw = {}
        for f in dataclasses.fields(base):
            vs = sample_values(mod, _subst(hints[f.name], sub), depth + 1)
            kw[f.name] = vs[0] if vs else None
        return [base(**kw)]
    if ref.is_namedtuple(base):
        hints = typing_extensions.get_type_hints(base)
        return [base(*[sample_values(mod, hints[f], depth + 1)[0] for f in base._fields])]
    if ref.is_typeddict(base):
        hints = typing_extensions.get_type_hints(base)
        req = [k for k in hints if k in getattr(base, "__required_keys__", hints)]
        return [{k: sample_values(mod, hints[k], depth + 1)[0] for k in req}, {k: sample_values(mod, hints[k], depth + 1)[0] for k in hints}]
    if base in (tuple, typing.Tuple):
        if not args or (len(args) == 1 and args[0] == ()):
            return [()]
        if len(args) == 2 and args[1] is Ellipsis:
            e = sample_values(mod, args[0], depth + 1)
            return [(), tuple(e[:1]), tuple(e[:2] + e[:1])]
        outs = [[]]
        for a in args:
            if ref._is_unpack(a):
                inner = sample_values(mod, ref._unpacked(a), depth + 1)
                outs = [o_ + list(i) for o_ in outs for i in inner]
            else:
                outs = [o_ + [sample_values(mod, a, depth + 1)[0]] for o_ in outs]
        return [tuple(o_) for o_ in outs]
    if isinstance(base, type):
        if base is collections.ChainMap:
            return [collections.ChainMap({"k": sample_values(mod, args[1], depth + 1)[0]} if args else {"k": 1})]
        if base is collections.Counter:
            return [collections.Counter({sample_values(mod, args[0], depth + 1)[0] if args else "k": 2})]
        if issubclass(base, collections.abc.Mapping) or base is collections.abc.Mapping:
            if not args:
                return [{"k": 1}]
            d = {sample_values(mod, args[0], depth + 1)[0]: sample_values(mod, args[1], depth + 1)[0]}
            if base is collections.defaultdict:
                return [collections.defaultdict(list, d)]
            return [base(d) if base in (dict, collections.OrderedDict) else d, {}]
        if issubclass(base, collections.abc.Collection):
            e = sample_values(mod, args[0], depth + 1) if args else [1]
            ctor = {collections.abc.Set: set, collections.abc.Sequence: list, collections.abc.MutableSequence: list, collections.abc.MutableSet: set}.get(base, base)
            try:
                return [ctor(e[:2]), ctor([])]
            except Exception:
                return [list(e[:2])]
    return []


def concrete_witness(mod, texpr, schema_doc, dname):
    """replay of a failed subsumption: serialize sample values natively and validate them with the
    jsonschema package (Draft 2020-12)"""
    try:
        import jsonschema
        from mashumaro.codecs.basic import BasicEncoder

        enc = BasicEncoder(mod.T)
        validator = jsonschema.Draft202012Validator(schema_doc)
        for v in sample_values(mod, mod.T):
            try:
                doc = json.loads(json.dumps(enc.encode(v)))
            except Exception:
                continue
            errs = list(validator.iter_errors(doc))
            if errs:
                return {"confirmed": True, "input": repr(v), "why": f"serialized {doc!r} is rejected by build_json_schema({texpr}): {errs[0].message}"[:400]}
    except Exception as e:  # noqa
        return {"confirmed": False, "why": f"replay error {type(e).__name__}: {e}"}
    return None


def bounded_task(payload):
    """bounded cross-check of the subsumption checker itself: concrete samples through jsonschema"""
    pid, texpr = payload
    src = SCHEMA_PRELUDE + f"\nT = {texpr}\n"
    try:
        mod, _ = build.build_module(src)
    except Exception as e:
        return {"n": 0, "bad": []}
    try:
        import jsonschema
        from mashumaro.codecs.basic import BasicEncoder

        n, bad = 0, []
        try:
            enc = BasicEncoder(mod.T)
        except Exception:
            return {"n": 0, "bad": []}
        for dname in ("DRAFT_2020_12", "OPEN_API_3_1"):
            for all_refs in (False, True):
                try:
                    doc_s = mod.build_json_schema(mod.T, dialect=getattr(mod, dname), all_refs=all_refs).to_dict()
                except Exception:
                    continue
                if dname == "OPEN_API_3_1" and all_refs:
                    continue  # refs point into #/components/schemas of an enclosing OpenAPI document
                validator = jsonschema.Draft202012Validator(doc_s)
                for v in sample_values(mod, mod.T):
                    try:
                        d = json.loads(json.dumps(enc.encode(v)))
                    except Exception:
                        continue
                    n += 1
                    errs = list(validator.iter_errors(d))
                    if errs:
                        bad.append(f"{texpr}/{dname}/{all_refs}: {d!r}: {errs[0].message}"[:200])
        return {"n": n, "bad": bad}
    finally:
        build.drop_module(mod)


def schema_types(tier):
    ts = list(SCHEMA_TYPES)
    if tier == "thorough":
        # depth-2 compositions of every untagged shape (tagged ones are the recorded findings)
        inner = [t for t in SCHEMA_TYPES if t not in KNOWN_TAGS and t not in ("type(None)",)]
        for t in inner:
            ts += [f"List[{t}]", f"Dict[str, {t}]", f"Optional[{t}]", f"Tuple[{t}, ...]", f"Tuple[int, {t}]"]
    seen, out = set(), []
    for t in ts:
        if t not in seen:
            seen.add(t)
            out.append(t)
    return out


def check06(pid, tier):
    t0 = time.time()
    SCHEMA_TYPES = schema_types(tier)  # noqa: shadows the module list on purpose
    res = runner.run_pool(c06_task, [(pid, t) for t in SCHEMA_TYPES], chunks=2)
    obs, crashes = [], []
    for r in res:
        if "crash" in r:
            crashes.append(r["crash"] + " @ " + r["payload"] + "\n" + r["trace"][-600:])
        else:
            obs.extend(r["obligations"])
    bres = runner.run_pool(bounded_task, [(pid, t) for t in SCHEMA_TYPES], chunks=4)
    nb = sum(r.get("n", 0) for r in bres if "crash" not in r)
    nbad = sum(len(r.get("bad", [])) for r in bres if "crash" not in r)
    # disagreement between the bounded cross-check and the subsumption verdicts = checker bug
    failing_types = {o["id"].split("[", 1)[1].rsplit("]", 1)[0] for o in obs if o["status"] != "proved"}
    for r in bres:
        for b in r.get("bad", []) if "crash" not in r else []:
            t = b.split("/", 1)[0]
            if t not in failing_types:
                crashes.append(f"cross-check disagreement (subsumption checker accepted, jsonschema rejects): {b}")
    return runner.finish(
        pid, tier, obs, t0,
        technique="subsumption proof SHAPE(T) <= L(build_json_schema(T)): document shapes (unbounded lengths, arbitrary scalars) derived from the documented basic form (REF_ENC, discharged under C02) against the schema produced by the real builder, by a structural checker implementing Draft 2020-12 semantics of the emitted keywords; bounded cross-check with the jsonschema package",
        units=len(SCHEMA_TYPES),
        extra_cov={"types": len(SCHEMA_TYPES), "dialects": ["DRAFT_2020_12", "OPEN_API_3_1"], "all_refs": [False, True],
                   "explanation": "one obligation per type x dialect x all_refs (+ the required clause for dataclasses); tuple arrangements around one Unpack up to 5 positions (bounded, stated)"},
        trusted={"the subsumption checker's reading of JSON Schema 2020-12 (cross-checked against the jsonschema package on concrete samples each run)",
                 "`format` is annotation-only (2020-12 default)", "SHAPE is tied to the packers through the C02 obligations (packers |= REF_ENC)"},
        functions=["jsonschema/schema.py: get_schema and all registered creators (on_dataclass, on_tuple, on_named_tuple, on_typed_dict, on_collection, on_enum, on_literal, ...) through the schema they produce",
                   "jsonschema/builder.py: build_json_schema"],
        bounded=[{"what": "concrete samples serialized natively and validated with jsonschema (Draft 2020-12)", "documents": nb, "rejected": nbad,
                  "note": "bounded stand-in and cross-check of the subsumption checker; never counted as proved"}],
        crashes=crashes,
    )


# =============================================================================================
# C20: schema generation is total, well formed and closed
# =============================================================================================
import ast as _ast

import z3 as _z3

from . import pysym as _ps


class LO(_ps.SymVal):
    """a locally constructed object with known attribute values (functional updates)"""

    is_local_object = True

    def __init__(self, cls, attrs):
        self.cls = cls
        self.attrs = dict(attrs)
        self.fresh = True

    def __repr__(self):
        return f"LO({self.cls.__name__} {self.attrs})"


def verify_build_json_schema():
    """L-src contract S13 of jsonschema/builder.py:build_json_schema, proved for all arguments:
    the Context handed to get_schema has
      dialect     = dialect            if dialect is not None      else ctx.dialect   (DRAFT_2020_12 when no context)
      all_refs    = all_refs           if all_refs is not None     else ctx.all_refs if not None else EFFECTIVE_DIALECT.all_refs
      ref_prefix  = ref_prefix.rstrip('/') if ref_prefix is not None else ctx.ref_prefix if not None else EFFECTIVE_DIALECT.definitions_root_pointer
      definitions is the caller's context.definitions (accumulation), plugins = plugins or ctx.plugins
    and the result is get_schema(Instance(type), that context), with .definitions = context.definitions
    iff with_definitions and the mapping is non-empty."""
    import mashumaro.jsonschema.builder as B
    from mashumaro.jsonschema.models import Context

    path = "/repo/mashumaro/jsonschema/builder.py"
    mod = _ast.parse(open(path).read())
    fn = [n for n in mod.body if isinstance(n, _ast.FunctionDef) and n.name == "build_json_schema"][0]
    results = []
    for has_ctx in (False, True):
        eng = _ps.Engine()
        calls = []

        def mk_ctx(kw):
            base = {f.name: (_ps.Ob(f.default) if f.default is not dataclasses.MISSING else _ps.LD([])) for f in dataclasses.fields(Context)}
            base.update(kw)
            return LO(Context, base)

        def call(ex, fnv, args, kw, node, st, ctx):
            if isinstance(fnv, _ps.Ob) and fnv.o is Context:
                return mk_ctx(dict(kw))
            if isinstance(fnv, _ps.Ob) and getattr(fnv.o, "__name__", "") == "get_schema":
                calls.append((list(st.pc) + [ctx.guard_cond()], args, dict(kw)))
                return LO(object, {"__schema__": _ps.Ob("schema"), "definitions": _ps.Ob(None)})
            if isinstance(fnv, _ps.Ob) and getattr(fnv.o, "__name__", "") == "Instance":
                return _ps.Call(("Instance",), "Instance", args)
            return None

        def tm_attr(ex, base, name, node, st, ctx):
            if isinstance(base, LO):
                return base.attrs.get(name, _ps.Ob(None))
            if isinstance(base, _ps.Tm):
                return _ps.Tm(eng.func(f"attr!{name}", eng.V, eng.V)(base.t))
            return None

        def attr_store(ex, tgt, v, st):
            if isinstance(tgt.value, _ast.Name) and isinstance(st.env.get(tgt.value.id), LO):
                lo = st.env[tgt.value.id]
                st.env[tgt.value.id] = LO(lo.cls, {**lo.attrs, tgt.attr: v})
                return [st]
            raise _ps.NotInSubset("attribute store on a non-local object")

        class Ex(_ps.Executor):
            def getattr(self, base, name, node, st, ctx):
                if isinstance(base, LO):
                    return base.attrs.get(name, _ps.Ob(None))
                return super().getattr(base, name, node, st, ctx)

            def method_call(self, recv, name, args, kw, node, st, ctx):
                return super().method_call(recv, name, args, kw, node, st, ctx)

        ex = Ex(eng, dict(B.__dict__), hooks={"call": call, "attr_store": attr_store, "tm_attr": tm_attr})
        ex.assume_hasattr = True
        ex.nonraising_prefixes = ("",)
        sym = {n: eng.fresh(n) for n in ("instance_type", "ctx_dialect", "ctx_defs", "ctx_all_refs", "ctx_ref_prefix", "ctx_plugins", "all_refs", "dialect", "ref_prefix", "plugins", "with_definitions", "with_dialect_uri")}
        args = {"instance_type": _ps.Tm(sym["instance_type"]), "with_definitions": _ps.Tm(sym["with_definitions"]), "all_refs": _ps.Tm(sym["all_refs"]),
                "with_dialect_uri": _ps.Tm(sym["with_dialect_uri"]), "dialect": _ps.Tm(sym["dialect"]), "ref_prefix": _ps.Tm(sym["ref_prefix"]), "plugins": _ps.Tm(sym["plugins"])}
        if has_ctx:
            args["context"] = LO(Context, {"dialect": _ps.Tm(sym["ctx_dialect"]), "definitions": _ps.Tm(sym["ctx_defs"]), "all_refs": _ps.Tm(sym["ctx_all_refs"]),
                                           "ref_prefix": _ps.Tm(sym["ctx_ref_prefix"]), "plugins": _ps.Tm(sym["ctx_plugins"])})
        else:
            args["context"] = _ps.Ob(None)
        try:
            paths = ex.run(fn, args)
        except _ps.NotInSubset as e:
            results.append(dict(id=f"C20.S13[build_json_schema/{'ctx' if has_ctx else 'noctx'}]", status="undecided", detail=f"outside the verified subset: {e}"))
            continue
        prover = _ps.Prover(eng, 10000)
        none = eng.const(None)
        from mashumaro.jsonschema.dialects import DRAFT_2020_12

        ctx_dialect = sym["ctx_dialect"] if has_ctx else eng.const(DRAFT_2020_12)
        eff_dialect = _z3.If(sym["dialect"] != none, sym["dialect"], ctx_dialect)
        a_all = eng.func("attr!all_refs", eng.V, eng.V)
        a_ptr = eng.func("attr!definitions_root_pointer", eng.V, eng.V)
        ctx_all = sym["ctx_all_refs"] if has_ctx else none
        ctx_pref = sym["ctx_ref_prefix"] if has_ctx else none
        if not has_ctx:
            # a concrete dialect object: its attributes are known
            for c, v in ((a_all(eng.const(DRAFT_2020_12)), DRAFT_2020_12.all_refs), (a_ptr(eng.const(DRAFT_2020_12)), DRAFT_2020_12.definitions_root_pointer)):
                prover.extra.append(c == eng.const(v))
        want_all = _z3.If(sym["all_refs"] != none, sym["all_refs"], _z3.If(ctx_all != none, ctx_all, a_all(eff_dialect)))
        rstrip = eng.term(_ps.Call(("meth", "rstrip"), "meth_rstrip", [_ps.Tm(sym["ref_prefix"]), _ps.Ob("/")]))
        want_pref = _z3.If(sym["ref_prefix"] != none, rstrip, _z3.If(ctx_pref != none, ctx_pref, a_ptr(eff_dialect)))
        probs = []
        if not calls:
            probs.append("get_schema is never called")
        for (pc, cargs, ckw) in calls:
            if len(cargs) < 2 or not isinstance(cargs[1], LO):
                probs.append("get_schema does not receive a locally built Context")
                continue
            c = cargs[1]
            for nm, want in (("dialect", eff_dialect), ("all_refs", want_all), ("ref_prefix", want_pref)):
                got = eng.term(c.attrs.get(nm, _ps.Ob(None)))
                v = prover.prove(nm, [x for x in pc if x is not None], got == want)
                if v.status != "proved":
                    m = ""
                    if v.model is not None:
                        def show(t):
                            val = v.model.eval(t, model_completion=True)
                            return "None" if _z3.is_true(v.model.eval(t == none, model_completion=True)) else str(val)
                        m = " e.g. " + ", ".join(f"{k}={show(sym[k])}" for k in ("dialect", "all_refs", "ref_prefix") + (("ctx_dialect", "ctx_all_refs", "ctx_ref_prefix") if has_ctx else ()))
                    probs.append(f"Context.{nm} handed to get_schema is not the documented value ({v.status}){m}")
            if has_ctx:
                d = c.attrs.get("definitions")
                if not (isinstance(d, _ps.Tm) and _z3.eq(d.t, sym["ctx_defs"])):
                    probs.append("the new Context does not share the caller's definitions mapping (no accumulation)")
        results.append(dict(id=f"C20.S13[build_json_schema/{'ctx' if has_ctx else 'noctx'}]", status="proved" if not probs else "refuted", unit="jsonschema/builder.py:build_json_schema",
                            paths=len(paths), queries=prover.queries, solver_s=round(prover.time_s, 3), detail="; ".join(sorted(set(probs)))[:700],
                            witness=(_s13_witness() if probs else None)))
    return results


def _s13_witness():
    """replay on the real function over the finite option lattice"""
    from mashumaro import DataClassDictMixin
    from mashumaro.jsonschema import build_json_schema
    from mashumaro.jsonschema.dialects import DRAFT_2020_12, OPEN_API_3_1
    from mashumaro.jsonschema.models import Context

    @dataclasses.dataclass
    class In(DataClassDictMixin):
        z: int = 0

    @dataclasses.dataclass
    class Out(DataClassDictMixin):
        i: In

    for ctx_d in (None, DRAFT_2020_12, OPEN_API_3_1):
        for ctx_p in (None, "#/x"):
            for d in (None, DRAFT_2020_12, OPEN_API_3_1):
                for p in (None, "#/y/", "#/y"):
                    for ar in (None, True):
                        ctx = None if ctx_d is None else Context(dialect=ctx_d, ref_prefix=ctx_p)
                        eff = d or ctx_d or DRAFT_2020_12
                        want = p.rstrip("/") if p is not None else (ctx_p if (ctx is not None and ctx_p is not None) else eff.definitions_root_pointer)
                        try:
                            doc = build_json_schema(Out, context=ctx, dialect=d, ref_prefix=p, all_refs=ar).to_dict()
                        except Exception as e:  # noqa
                            return {"confirmed": True, "why": f"build_json_schema(context={ctx}, dialect={d}, ref_prefix={p!r}) raised {type(e).__name__}"}
                        for r in _refs(doc):
                            if not r.startswith(want + "/"):
                                return {"confirmed": True, "input": f"context={'None' if ctx is None else f'Context(dialect={type(ctx_d).__name__}, ref_prefix={ctx_p!r})'}, dialect={type(d).__name__ if d else None}, ref_prefix={p!r}, all_refs={ar}",
                                        "why": f"$ref {r!r} does not start with the configured prefix {want!r}"}
    return None


def _refs(doc):
    out = []
    if isinstance(doc, dict):
        for k, v in doc.items():
            if k == "$ref" and isinstance(v, str):
                out.append(v)
            else:
                out += _refs(v)
    elif isinstance(doc, list):
        for v in doc:
            out += _refs(v)
    return out


class _Deadline(BaseException):
    pass


class _deadline:
    def __init__(self, seconds):
        self.seconds = seconds

    def __enter__(self):
        import signal

        def handler(signum, frame):
            raise _Deadline()

        self.old = signal.signal(signal.SIGALRM, handler)
        signal.alarm(self.seconds)

    def __exit__(self, *a):
        import signal

        signal.alarm(0)
        signal.signal(signal.SIGALRM, self.old)
        return False


C20_CONFIGS = {
    "plain": "",
    "omit_none": "omit_none = True",
    "omit_default": "omit_default = True",
    "by_alias": "serialize_by_alias = True\n        aliases = {'a': 'A', 'x': 'XX'}",
    "all": "omit_none = True\n        omit_default = True\n        serialize_by_alias = True\n        aliases = {'n': 'N', 'x': 'X'}",
    "dialect": "dialect = CD",
    "sort_lazy": "sort_keys = True\n        lazy_compilation = True",
    "flags": "code_generation_options = [TO_DICT_ADD_OMIT_NONE_FLAG, TO_DICT_ADD_BY_ALIAS_FLAG, ADD_DIALECT_SUPPORT]\n        omit_none = True",
    # customization registrations of every documented form: the schema generator walks the same levels as the serializer
    "strategy_de_only": "serialization_strategy = {datetime.date: {'deserialize': _c20_de}, int: {'deserialize': int}, List[int]: {'deserialize': list}}",
    "strategy_ser_fn": "serialization_strategy = {datetime.date: {'serialize': _c20_ser, 'deserialize': _c20_de}}",
    "strategy_pass": "serialization_strategy = {datetime.date: pass_through, int: pass_through}",
    "strategy_obj": "serialization_strategy = {datetime.date: _C20St()}",
    "dialect_strategy": "dialect = CDS",
}

C20_STRATEGY_DEFS = """
def _c20_de(v):
    return datetime.date.fromisoformat(v)
def _c20_ser(v) -> str:
    return v.isoformat()
def _c20_ser_bad(v) -> "OnlyWhileTypeChecking":
    return v.isoformat()
class _C20St(SerializationStrategy):
    def serialize(self, v) -> str:
        return v.isoformat()
    def deserialize(self, v):
        return datetime.date.fromisoformat(v)
class _C20Win(NamedTuple):
    name: str
    size: List[int]
@dataclass(frozen=True)
class _C20Pal:
    colors: List[str]
class CDS(Dialect):
    serialization_strategy = {datetime.date: {'deserialize': _c20_de}, float: {'deserialize': float}}
"""

C20_FIELDS = ["a: int = 1", "n: Optional[int] = None", "s: str = 'x'", "d: datetime.date = datetime.date(2020, 1, 2)", "l: List[int] = field(default_factory=list)",
              "e: E1 = E1.A", "al: Annotated[int, Alias('ann')] = 3", "m: int = field(default=4, metadata={'alias': 'mm'})", "t: Tuple[int, str] = (1, 'a')",
              "nt: NTS = NTS(1)", "u: Union[int, str] = 'q'", "f: float = 1.5", "b: bytes = b'x'", "dd: Dict[str, int] = field(default_factory=dict)",
              "o: Optional[Leaf] = None", "td: datetime.timedelta = datetime.timedelta(seconds=3)", "lit: Literal['a', 'b'] = 'a'",
              "dm: datetime.date = field(default=datetime.date(2020, 1, 2), metadata={'serialization_strategy': {'deserialize': _c20_de}})",
              "ds: datetime.date = field(default=datetime.date(2020, 1, 2), metadata={'serialize': _c20_ser})",
              "dst: datetime.date = field(default=datetime.date(2020, 1, 2), metadata={'serialization_strategy': _C20St()})",
              "ld: List[datetime.date] = field(default_factory=list)",
              # defaults whose class is hashable while the value is not (a list somewhere inside), and unhashable Annotated metadata
              "tl: Tuple[List[int], List[int]] = ([1, 2], [3])", "ntl: _C20Win = _C20Win('main', [640, 480])", "fz: _C20Pal = _C20Pal(['red'])",
              "am: Annotated[int, {'k': [1]}] = 1",
              # a serializer whose (string) return annotation names nothing that exists at run time: the schema falls back to Any
              "dbad: datetime.date = field(default=datetime.date(2020, 1, 2), metadata={'serialize': _c20_ser_bad})"]


def c20_task(payload):
    pid, kind, spec = payload
    obs = []
    if kind == "type":
        texpr = spec
        src = SCHEMA_PRELUDE + f"\nT = {texpr}\n"
        label = f"[{texpr}]"
    elif kind == "config":
        cfg, fld = spec
        pep563 = False
        if cfg.endswith("@pep563"):
            cfg, pep563 = cfg[:-7], True
        body = C20_CONFIGS[cfg]
        src = ("from __future__ import annotations\n" if pep563 else "") + SCHEMA_PRELUDE + ("\nfrom mashumaro.config import TO_DICT_ADD_OMIT_NONE_FLAG, TO_DICT_ADD_BY_ALIAS_FLAG, ADD_DIALECT_SUPPORT\n"
                                "from mashumaro.types import SerializationStrategy\n" + C20_STRATEGY_DEFS +
                                "class CD(Dialect):\n    omit_none = True\n    omit_default = True\n    serialize_by_alias = True\n"
                                f"@dataclass\nclass T(DataClassDictMixin):\n    x: int\n    {fld}\n" + (f"    class Config(BaseConfig):\n        {body}\n" if body else ""))
        label = f"[config:{cfg}|{fld.split(':')[0]}]" + ("{pep563}" if pep563 else "")
    else:  # graphs
        src = SCHEMA_PRELUDE + GRAPHS[spec]
        label = f"[graph:{spec}]"
    try:
        mod, _ = build.build_module(src)
    except Exception as e:
        return {"obligations": [dict(id=f"{pid}.G10{label}/family", status="error", detail=f"family does not build: {type(e).__name__}: {e}"[:300])]}
    try:
        import jsonschema

        nonterm = False
        for dname in ("DRAFT_2020_12", "OPEN_API_3_1"):
            for all_refs in (False, True):
                oid = f"{pid}.G10{label}/{dname}/{'refs' if all_refs else 'inline'}"
                d = getattr(mod, dname)
                if nonterm:
                    continue
                try:
                    with _deadline(4):
                        js = mod.build_json_schema(mod.T, dialect=d, all_refs=all_refs)
                        doc = js.to_dict()
                except _Deadline:
                    nonterm = True
                    obs.append(dict(id=f"{pid}.G10{label}/terminates", status="refuted", detail="build_json_schema does not terminate within 4 s (unbounded recursion over the class graph)", unit="build_json_schema",
                                    witness={"confirmed": True, "source": src, "why": "build_json_schema(T) does not return (unbounded recursion over the class graph)"}))
                    continue
                except RecursionError:
                    obs.append(dict(id=oid, status="refuted", detail="build_json_schema: RecursionError", unit="build_json_schema",
                                    witness={"confirmed": True, "source": src, "why": "build_json_schema(T) raises RecursionError"}))
                    continue
                except Exception as e:  # noqa
                    obs.append(dict(id=oid, status="refuted", detail=f"build_json_schema raised {type(e).__name__}: {e}"[:300], unit="build_json_schema",
                                    witness={"confirmed": True, "source": src, "why": f"build_json_schema(T) raises {type(e).__name__}: {e}"[:300]}))
                    continue
                probs = []
                try:
                    jsonschema.Draft202012Validator.check_schema(doc)
                except Exception as e:  # noqa
                    probs.append(f"not valid against the Draft 2020-12 metaschema: {str(e)[:200]}")
                defs = doc.get("$defs") or {}
                prefix = d.definitions_root_pointer
                for r in _refs(doc):
                    if not r.startswith(prefix + "/"):
                        probs.append(f"$ref {r!r} does not start with the configured prefix {prefix!r}")
                    elif r[len(prefix) + 1:] not in (js.definitions or defs or {}):
                        probs.append(f"$ref {r!r} names no collected definition")
                try:
                    rt = mod.JSONSchema.from_dict(doc).to_dict()
                    if rt != doc:
                        probs.append("JSONSchema.from_dict(doc).to_dict() differs from doc")
                except Exception as e:  # noqa
                    probs.append(f"model round trip raised {type(e).__name__}: {e}"[:200])
                obs.append(dict(id=oid, status="proved" if not probs else "refuted", unit="produced schema document", detail="; ".join(sorted(set(probs)))[:600],
                                sample=json.dumps(doc, default=str)[:400], witness=({"confirmed": True, "source": src, "why": probs[0]} if probs else None)))
        # accumulation with one builder
        if kind != "config" and not nonterm:
            oid = f"{pid}.G10{label}/builder_accumulation"
            try:
                b = mod.JSONSchemaBuilder(mod.DRAFT_2020_12, all_refs=True)
                with _deadline(4):
                    d1 = b.build(mod.T).to_dict()
                snap = json.dumps(b.get_definitions().to_dict(), sort_keys=True, default=str)
                b.build(mod.Leaf)
                b.build(mod.T)
                snap2 = b.get_definitions().to_dict()
                probs = []
                first = json.loads(snap)
                for k, v in (first.items() if isinstance(first, dict) else []):
                    if json.loads(json.dumps(snap2.get(k), default=str)) != v:
                        probs.append(f"definition {k!r} changed between builds")
                for r in _refs(d1):
                    if r[len("#/$defs/"):] not in snap2:
                        probs.append(f"$ref {r!r} names no definition of the builder")
                obs.append(dict(id=oid, status="proved" if not probs else "refuted", detail="; ".join(probs)[:400]))
            except (RecursionError, _Deadline):
                obs.append(dict(id=oid, status="refuted", detail="RecursionError / no termination", witness={"confirmed": True, "source": src, "why": "JSONSchemaBuilder.build raises RecursionError"}))
            except Exception as e:  # noqa
                obs.append(dict(id=oid, status="refuted", detail=f"{type(e).__name__}: {e}"[:300], witness={"confirmed": True, "source": src, "why": f"JSONSchemaBuilder.build raises {type(e).__name__}"}))
        return {"obligations": obs}
    finally:
        build.drop_module(mod)


GRAPHS = {
    "tree": "\nT = Outer\n",
    "dag_shared": "\n@dataclass\nclass DagT(DataClassDictMixin):\n    a: Leaf\n    b: Leaf\n    c: List[Leaf] = field(default_factory=list)\nT = DagT\n",
    "self_reference": "\n@dataclass\nclass Node(DataClassDictMixin):\n    v: int = 0\n    nxt: Optional['Node'] = None\nT = Node\n",
    "mutual_reference": "\n@dataclass\nclass MA(DataClassDictMixin):\n    b: Optional['MB'] = None\n@dataclass\nclass MB(DataClassDictMixin):\n    a: Optional[MA] = None\nT = MA\n",
}


def builder_prefix_task(payload):
    """JSONSchemaBuilder(dialect, all_refs, ref_prefix): every $ref of every schema it builds, and of the definitions it accumulates, is
    <configured prefix without trailing slashes> + "/" + <name of a definition held by the builder>.  The builder treats the prefix as an
    opaque string except for its trailing slashes, so the family {default, plain, one and several trailing slashes} x all_refs x dialect
    is every case of the argument handling (enumerated on the real class)."""
    (pid,) = payload
    src = SCHEMA_PRELUDE + "\nT = Outer\n"
    mod, _ = build.build_module(src)
    obs = []
    try:
        for dname in ("DRAFT_2020_12", "OPEN_API_3_1"):
            d = getattr(mod, dname)
            for all_refs in (None, True):
                for pref in (None, "#/components/x", "#/components/x/", "#/components/x//"):
                    if all_refs is None and not d.all_refs:
                        continue  # no reference is emitted at all
                    oid = f"{pid}.G10[builder:{dname}/{'refs' if all_refs else 'default'}/{pref!r}]/ref_prefix"
                    probs = []
                    try:
                        b = mod.JSONSchemaBuilder(d, all_refs=all_refs, ref_prefix=pref)
                        docs = [b.build(mod.T).to_dict(), b.build(mod.Leaf).to_dict()]
                        defs = b.get_definitions().to_dict()
                        names = set((defs.get("definitions") or defs).keys()) if isinstance(defs, dict) else set()
                        want = (pref if pref is not None else d.definitions_root_pointer).rstrip("/")
                        refs = [r for doc in docs + [defs] for r in _refs(doc)]
                        if not refs:
                            probs.append("no $ref emitted (vacuous)")
                        for r in refs:
                            if not (r.startswith(want + "/") and r[len(want) + 1:] in names):
                                probs.append(f"$ref {r!r} is not {want!r} + '/' + one of {sorted(names)}")
                    except Exception as e:  # noqa
                        probs.append(f"raised {type(e).__name__}: {e}"[:200])
                    obs.append(dict(id=oid, status="proved" if not probs else "refuted", unit="JSONSchemaBuilder.__init__ / build / get_definitions", backend="enumeration",
                                    detail="; ".join(sorted(set(probs)))[:500],
                                    witness=({"confirmed": True, "source": src, "input": f"JSONSchemaBuilder({dname}, all_refs={all_refs}, ref_prefix={pref!r}).build(Outer)", "why": sorted(set(probs))[0]} if probs else None)))
        return {"obligations": obs}
    finally:
        build.drop_module(mod)


def check20(pid, tier):
    t0 = time.time()
    obs = []
    crashes = []
    try:
        obs += verify_build_json_schema()
    except Exception as e:  # noqa
        import traceback

        crashes.append(f"S13: {type(e).__name__}: {e}\n{traceback.format_exc()[-600:]}")
    for r in runner.run_pool(builder_prefix_task, [(pid,)], chunks=1):
        if "crash" in r:
            crashes.append(r["crash"] + " @ " + r["payload"] + "\n" + r["trace"][-600:])
        else:
            obs.extend(r["obligations"])
    payloads = [(pid, "type", t) for t in schema_types(tier)]
    flds = C20_FIELDS if tier == "thorough" else C20_FIELDS
    payloads += [(pid, "config", (c, f)) for c in C20_CONFIGS for f in flds]
    # the same registrations in a module with postponed evaluation of annotations (PEP 563): return annotations are strings
    payloads += [(pid, "config", (c + "@pep563", f)) for c in ("plain", "strategy_ser_fn", "strategy_obj") for f in flds if f.split(":")[0] in ("d", "ds", "dst", "dm", "ld", "a")]
    try:
        from . import s3resolve

        obs += s3resolve.verify_schema_overridden(pid)
    except Exception as e:  # noqa
        import traceback

        crashes.append(f"S9: {type(e).__name__}: {e}\n{traceback.format_exc()[-600:]}")
    payloads += [(pid, "graph", g) for g in GRAPHS]
    res = runner.run_pool(c20_task, payloads, chunks=4)
    for r in res:
        if "crash" in r:
            crashes.append(r["crash"] + " @ " + r["payload"] + "\n" + r["trace"][-600:])
        else:
            obs.extend(r["obligations"])
    return runner.finish(
        pid, tier, obs, t0,
        technique="(S13) contract of build_json_schema proved for all arguments by symbolic execution of the real source (pysym, z3): option override order, ref_prefix normalisation, definitions sharing; (enumerated) for every type of the schema family and every Config x defaulted-field point, under both dialects and all_refs values: no exception, Draft 2020-12 metaschema validity, every $ref starts with the prefix and names a collected definition, JSONSchema model round trip, builder accumulation",
        units=len(payloads) + 2,
        extra_cov={"types": len(SCHEMA_TYPES), "config_points": len(C20_CONFIGS) * len(flds), "graphs": list(GRAPHS), "exhaustive": True,
                   "explanation": "for a fixed (type, Config, dialect, all_refs) the schema is one concrete object - there is no further quantifier - so these obligations are enumerated over the finite family (exhaustive over it); the S13 obligations are for all argument values"},
        trusted={"the jsonschema package's Draft 2020-12 metaschema check", "get_schema is opaque in S13 (its result is checked by the enumerated obligations)"},
        functions=["jsonschema/builder.py:build_json_schema (S13, symbolic)", "jsonschema/schema.py:Instance.get_overridden_serialization_method (S9: loop-body triple, symbolic)", "jsonschema/schema.py:_default, on_dataclass, get_schema (through the produced documents)", "JSONSchemaBuilder.build / get_definitions"],
        crashes=crashes,
    )

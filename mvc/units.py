"""generic unit verification: a generated function of one argument against a reference expression
(codec encode/decode functions), module-level slot (frame) obligations of harvested texts, and
frame/mutation scans."""
from __future__ import annotations

import ast

import z3

from . import pysym, ref
from .pysym import Call, Ite, LD, LL, Ob, Tm, _const_key, _short

MUTATORS = {"pop", "popitem", "update", "setdefault", "clear", "append", "extend", "insert", "remove", "sort", "reverse",
            "add", "discard", "__setitem__", "__delitem__", "move_to_end", "appendleft", "popleft"}


def ref_summary(eng, gen: ref.RefGen, src, x, hooks=None, assume_hasattr=False, nonraising=()):
    """(value SymVal, raises z3 Bool, hyps) of the reference expression applied to x"""
    ns = dict(gen.ns)
    table = {}
    if gen.defs:
        code = "\n\n".join(gen.defs)
        exec(code, ns)
        gen.ns.update({k: v for k, v in ns.items() if k.startswith("_ref_")})
        for n in ast.parse(code).body:
            table[n.name] = (n, gen.ns, None)
    sx = pysym.Executor(eng, gen.ns, hooks=hooks or {})
    sx.inline = table
    sx.assume_hasattr = assume_hasattr
    sx.nonraising = set(nonraising)
    st = pysym.State({"x": x})
    ctx = pysym.EvalCtx()
    v = sx.eval(ast.parse(src, mode="eval").body, st, ctx)
    rz = z3.Or(*[c for c, _ in ctx.raises]) if ctx.raises else z3.BoolVal(False)
    return v, rz, list(ctx.hyps)


def unit_index(records):
    """function object id -> canonical key of the compiled unit it is: (class, method name, dialect).
    Two units compiled for the same (class, method, dialect) are interchangeable callees: each is
    separately proved against the same dataclass contract (G1/G2)."""
    idx = {}
    for r in records:
        b = r.builder
        if b is None or not isinstance(r.locals, dict):
            continue
        try:
            mod = ast.parse(r.text)
        except SyntaxError:
            continue
        for n in mod.body:
            if isinstance(n, ast.FunctionDef) and n.name.startswith("__mashumaro_"):
                f = r.locals.get(n.name)
                f = getattr(f, "__func__", f)
                if f is not None:
                    idx[id(f)] = ("unit", id(b.cls), n.name, id(b.dialect) if b.dialect is not None else 0,
                                  id(b.default_dialect) if b.default_dialect is not None else 0)
    return idx


def unit_call_hook(idx):
    import types as _t

    def hook(ex, fn, args, kw, node, st, ctx):
        if not isinstance(fn, Ob):
            return None
        o = fn.o
        f = o.__func__ if isinstance(o, _t.MethodType) else o
        key = idx.get(id(f))
        if key is None:
            return None
        return ex.opaque_call(key, f"unit_{key[2]}", list(args), list(kw), ctx, node)

    return hook


def verify_unary(fn_ast, namespace, refsrc, gen, *, direction, inline=None, timeout_ms=10000, arg="value", hooks=None):
    """fn(value) == REF(value): value equality on returning paths, raise iff the reference raises"""
    eng = pysym.Engine()
    ex = pysym.Executor(eng, namespace, hooks=hooks or {})
    if inline:
        ex.inline = inline
    pre = []
    v = eng.fresh("value")
    if direction == "enc":
        ex.assume_hasattr = True
        ex.nonraising.add(("meth", "copy"))
        ex.nonraising.add(("meth", "_serialize"))
        _v = z3.Const("v!iter", eng.V)
        pre.append(z3.ForAll([_v], eng.iterable(_v), patterns=[eng.iterable(_v)]))
    params = [a.arg for a in fn_ast.args.args]
    args = {params[0]: Tm(v)} if params else {}
    paths = ex.run(fn_ast, args, pc=[])
    rv, rz, hyps = ref_summary(eng, gen, refsrc, Tm(v), hooks=hooks, assume_hasattr=(direction == "enc"), nonraising=ex.nonraising)
    prover = pysym.Prover(eng, timeout_ms, extra_axioms=pre + hyps)
    verdicts = []
    for i, p in enumerate(paths):
        if p.kind == "return":
            goal = z3.And(z3.Not(rz), eng.eq_struct(p.value, rv))
        else:
            goal = rz
        vd = prover.prove(f"path{i}", p.pc, goal)
        vd.path = p
        verdicts.append(vd)
    cover = any(p.kind == "return" and prover.sat(p.pc)[0] != z3.unsat for p in paths)
    return {"verdicts": verdicts, "paths": len(paths), "cover": cover, "queries": prover.queries, "solver_s": prover.time_s,
            "trusted": sorted(eng.trusted), "mutations": scan_mutations(fn_ast, set(params))}


def scan_mutations(fn_ast, params):
    """frame obligation (syntactic): no store into, and no mutating method call on, a parameter or
    anything reached from it by attribute/subscript/iteration; local names bound to fresh
    containers are exempt"""
    fresh_locals = set()
    tainted = set(params)
    problems = []
    for node in ast.walk(fn_ast):
        if isinstance(node, ast.Assign) and len(node.targets) == 1 and isinstance(node.targets[0], ast.Name):
            tgt = node.targets[0].id
            if isinstance(node.value, (ast.Dict, ast.List, ast.Set, ast.ListComp, ast.DictComp, ast.SetComp)):
                fresh_locals.add(tgt)
            elif _roots(node.value) & tainted:
                tainted.add(tgt)
        if isinstance(node, ast.comprehension):
            for n in ast.walk(node.target):
                if isinstance(n, ast.Name) and (_roots(node.iter) & tainted):
                    tainted.add(n.id)
    tainted -= fresh_locals
    for node in ast.walk(fn_ast):
        if isinstance(node, (ast.Assign, ast.AugAssign, ast.Delete)):
            tgts = node.targets if isinstance(node, (ast.Assign, ast.Delete)) else [node.target]
            for t in tgts:
                if isinstance(t, (ast.Subscript, ast.Attribute)) and (_roots(t.value) & tainted):
                    problems.append(f"line {node.lineno}: store into {ast.unparse(t)}")
        if isinstance(node, ast.Call) and isinstance(node.func, ast.Attribute) and node.func.attr in MUTATORS:
            if _roots(node.func.value) & tainted:
                problems.append(f"line {node.lineno}: mutating call {ast.unparse(node)[:80]}")
    return problems


def _roots(node):
    return {n.id for n in ast.walk(node) if isinstance(n, ast.Name)}


def slot_obligations(record):
    """module-level statements of a harvested text: every setattr / cache write targets the
    builder's own slot: (attrs holder | the class being built | decoder/encoder object,
    the function defined in this text) - DESIGN S8"""
    problems = []
    b = record.builder
    try:
        mod = ast.parse(record.text)
    except SyntaxError as e:
        return [f"generated text does not parse: {e}"]
    defs = [n.name for n in mod.body if isinstance(n, ast.FunctionDef)]
    g = record.globals or {}
    l = record.locals or {}

    def resolve(name):
        if name in l:
            return l[name]
        return g.get(name)

    allowed = []
    if b is not None:
        allowed = [b.attrs, b.cls]
    for k in ("decoder_obj", "encoder_obj"):
        if k in g:
            allowed.append(g[k])
    for n in mod.body:
        if isinstance(n, ast.Expr) and isinstance(n.value, ast.Call) and isinstance(n.value.func, ast.Name) and n.value.func.id == "setattr":
            a = n.value.args
            if len(a) != 3 or not isinstance(a[0], ast.Name):
                problems.append(f"unrecognised setattr form: {ast.unparse(n)}")
                continue
            tgt = resolve(a[0].id)
            # fresh holders: classes made by AttrsHolder() (new_class("AttrsHolder"), no bases, named attrs_<id>)
            is_holder = (isinstance(tgt, type) and tgt.__bases__ == (object,) and tgt.__module__ == "types"
                         and (tgt.__name__ == f"attrs_{id(tgt)}" or tgt.__name__ == "__root__"))
            if not any(tgt is x for x in allowed) and not is_holder:
                problems.append(f"{ast.unparse(n)}: target {a[0].id} is not the builder's own holder/class")
            # (helper functions of the text - union / discriminator helpers with a random suffix - are stored under their own fresh name)
            is_helper = isinstance(a[1], ast.Constant) and isinstance(a[1].value, str) and a[1].value in defs and not a[1].value.startswith("__mashumaro_")
            if b is not None and b.dialect is not None and not is_helper:
                problems.append(f"{ast.unparse(n)}: a unit compiled for a call dialect must only write its dialect cache slot")
        elif isinstance(n, ast.Assign) and isinstance(n.targets[0], ast.Subscript):
            t = n.targets[0]
            txt = ast.unparse(t)
            ok = (b is not None and b.dialect is not None and isinstance(t.value, ast.Attribute) and isinstance(t.value.value, ast.Name)
                  and t.value.value.id == "cls" and t.value.attr.startswith("__dialect_") and isinstance(t.slice, ast.Name) and t.slice.id == "dialect")
            if not ok:
                problems.append(f"unexpected module-level store {txt}")
            else:
                fmt = b.format_name
                kind = "unpacker" if "from_" in (defs[0] if defs else "") else "packer"
                want = f"__dialect_{fmt}_{kind}_cache__"
                if t.value.attr != want:
                    problems.append(f"cache slot {t.value.attr} is not {want}")
    return problems


FLAG_PARAMS = ("omit_none", "by_alias", "dialect", "context")


def flag_threading_problems(records):
    """keyword flags are threaded: inside a generated function F, every call of a generated helper m (a function
    defined in one of the harvested texts, reached as self.m / cls.m / attrs.m / a bare alias - including F itself,
    i.e. recursion through a recursive type alias) passes k=k for every flag k that both F and m declare.  The
    callee's signature is read from its own harvested definition (modular: caller against callee's contract)."""
    index = {}
    for r in records:
        try:
            m = ast.parse(r.text)
        except SyntaxError:
            continue
        for fn in [n for n in ast.walk(m) if isinstance(n, ast.FunctionDef)]:
            index.setdefault(fn.name, fn)
    problems = []
    ncalls = 0
    for fname, fn in index.items():
        kw_f = {a.arg for a in fn.args.kwonlyargs} & set(FLAG_PARAMS)
        # a flag the function never reads is vestigial (unpack helpers always declare dialect=None): nothing to thread
        used = {n.id for n in ast.walk(fn) if isinstance(n, ast.Name) and isinstance(n.ctx, ast.Load)}
        kw_f &= used
        if not kw_f:
            continue
        for c in ast.walk(fn):
            if not isinstance(c, ast.Call):
                continue
            f = c.func
            callee = f.attr if isinstance(f, ast.Attribute) else (f.id if isinstance(f, ast.Name) else None)
            if callee is None or callee not in index or callee.startswith("__mashumaro_"):
                continue  # entry-point units have the opt-in rule of their own (checked with the nested-call reference)
            if isinstance(f, ast.Attribute) and not (isinstance(f.value, ast.Name) and (f.value.id in ("self", "cls", "_cls") or f.value.id.startswith("attrs"))):
                continue
            ncalls += 1
            kw_m = {a.arg for a in index[callee].args.kwonlyargs} & set(FLAG_PARAMS)
            need = kw_f & kw_m
            passed = {k.arg for k in c.keywords if isinstance(k.value, ast.Name) and k.value.id == k.arg}
            if not need <= passed:
                problems.append(f"{fname}: the call of {callee} drops {sorted(need - passed)} (both declare them)")
    return problems, ncalls


def owned_call_problems(record):
    """call sites `<class expression>.__mashumaro_*__(...)` / `cls.__mashumaro_*__(...)` inside a generated
    function: the named unit must be defined on that very class (vars(K)), not inherited from an ancestor for
    which it was compiled - each class is (de)serialized by code compiled for its own fields.  Evaluated after
    the first calls (lazy slots are filled)."""
    problems = []
    b = record.builder
    if b is None:
        return problems
    try:
        mod = ast.parse(record.text)
    except SyntaxError:
        return problems
    g = dict(record.globals or {})
    for fn in [n for n in mod.body if isinstance(n, ast.FunctionDef)]:
        for c in ast.walk(fn):
            if not (isinstance(c, ast.Call) and isinstance(c.func, ast.Attribute) and c.func.attr.startswith("__mashumaro_") and c.func.attr.endswith("__")):
                continue
            recv = c.func.value
            if isinstance(recv, ast.Name) and recv.id in ("cls", "_cls"):
                klass = b.cls
            else:
                try:
                    klass = eval(compile(ast.Expression(recv), "<recv>", "eval"), g)
                except Exception:
                    continue  # an instance expression (dynamic dispatch) or a local
            if not isinstance(klass, type):
                continue
            name = c.func.attr
            if name not in vars(klass):
                owner = next((k for k in klass.__mro__ if name in vars(k)), None)
                if owner is not None:
                    problems.append(f"{fn.name}: {ast.unparse(c.func)} resolves to the unit compiled for {owner.__name__}, {klass.__name__} owns none")
    return problems


# ---------------------------------------------------------------------------------------------
# closedness (C17): every name and dotted reference in a generated text resolves, on all paths
# ---------------------------------------------------------------------------------------------
import builtins as _builtins


def _locals_of(fn):
    names = {a.arg for a in fn.args.posonlyargs + fn.args.args + fn.args.kwonlyargs}
    if fn.args.vararg:
        names.add(fn.args.vararg.arg)
    if fn.args.kwarg:
        names.add(fn.args.kwarg.arg)
    for n in ast.walk(fn):
        if isinstance(n, ast.Name) and isinstance(n.ctx, (ast.Store, ast.Del)):
            names.add(n.id)
        elif isinstance(n, ast.ExceptHandler) and n.name:
            names.add(n.name)
        elif isinstance(n, (ast.FunctionDef,)) and n is not fn:
            names.add(n.name)
    return names


def _closed_expr(node, local_names):
    """an expression built only from global names, attributes, subscripts, constants, tuples"""
    for n in ast.walk(node):
        if isinstance(n, ast.Name):
            if n.id in local_names:
                return False
        elif not isinstance(n, (ast.Attribute, ast.Subscript, ast.Constant, ast.Tuple, ast.List, ast.Load, ast.Starred, ast.Slice)):
            return False
    return True


def closedness_problems(record):
    """static obligations over *all* syntactic positions (not only executed paths):
    (1) every loaded name is a local, a key of the recorded globals/locals, or a builtin;
    (2) every closed reference expression (dotted names, subscripted type expressions - the
        arguments of error-path constructors among them) evaluates in the recorded namespace."""
    problems = []
    try:
        mod = ast.parse(record.text)
    except SyntaxError as e:
        return [f"generated text is not valid Python: {e.msg} (line {e.lineno})"]
    g = record.globals if isinstance(record.globals, dict) else {}
    l = record.locals if isinstance(record.locals, dict) else {}
    top_defs = {n.name for n in mod.body if isinstance(n, ast.FunctionDef)}

    def known(name, local_names):
        return name in local_names or name in g or name in l or hasattr(_builtins, name) or name in top_defs

    # (4) helpers that walk a class hierarchy are handed classes: the argument of iter_all_subclasses(..) evaluates to a type
    for c_ in ast.walk(mod):
        if isinstance(c_, ast.Call) and isinstance(c_.func, ast.Name) and c_.func.id == "iter_all_subclasses" and len(c_.args) == 1:
            try:
                tgt_ = eval(compile(ast.Expression(c_.args[0]), "<closedness>", "eval"), dict(g), dict(l))
            except Exception:
                continue  # reported by (1)/(2)
            if not isinstance(tgt_, type):
                problems.append(f"iter_all_subclasses({ast.unparse(c_.args[0])}) (line {c_.lineno}) is handed {tgt_!r}, which is not a class")
    # (3) a name of the form <module>_<func>__locals__<Class> is the identifier the generator gives a local class:
    #     whatever is bound under it must be usable as that class (not the TypeVar it substitutes, not an Annotated
    #     wrapper around it)
    import typing as _t

    import typing_extensions as _te

    used_names = {n.id for n in ast.walk(mod) if isinstance(n, ast.Name)}
    for k_, v_ in g.items():
        if "__locals__" in k_ and k_ in used_names and not k_.startswith("typing"):
            if isinstance(v_, _t.TypeVar) or _te.get_origin(v_) in (_t.Annotated, _te.Annotated):
                problems.append(f"global {k_!r} (the identifier of a local class) is bound to {v_!r}, not to the class")

    def check_scope(body_nodes, local_names, where):
        seen_expr = set()
        for stmt in body_nodes:
            for n in ast.walk(stmt):
                if isinstance(n, ast.Name) and isinstance(n.ctx, ast.Load) and not known(n.id, local_names):
                    problems.append(f"{where}: name {n.id!r} (line {n.lineno}) resolves nowhere")
            # maximal closed reference expressions
            stack = [stmt]
            while stack:
                n = stack.pop()
                if isinstance(n, (ast.Attribute, ast.Subscript)) and _closed_expr(n, local_names):
                    src = ast.unparse(n)
                    if src not in seen_expr:
                        seen_expr.add(src)
                        roots = {x.id for x in ast.walk(n) if isinstance(x, ast.Name)}
                        if all((r in g or r in l or hasattr(_builtins, r)) for r in roots):
                            try:
                                eval(compile(ast.Expression(n), "<closedness>", "eval"), dict(g), dict(l))
                            except Exception as e:  # noqa
                                problems.append(f"{where}: reference {src!r} (line {getattr(n, 'lineno', '?')}) does not evaluate: {type(e).__name__}: {e}")
                    continue
                stack.extend(ast.iter_child_nodes(n))

    for n in mod.body:
        if isinstance(n, ast.FunctionDef):
            check_scope(n.body, _locals_of(n), n.name)
            for d in n.decorator_list:
                check_scope([ast.Expr(d)], set(), n.name)
            for d in n.args.defaults + [x for x in n.args.kw_defaults if x is not None]:
                check_scope([ast.Expr(d)], set(), n.name + " (defaults)")
        else:
            check_scope([n], set(), "<module level>")
    return problems


# ---------------------------------------------------------------------------------------------
# one-shot codec functions (L-src): decode(data, T) = Decoder_F(T).decode(data), a fresh codec per call
# ---------------------------------------------------------------------------------------------
ONESHOT = {
    "mashumaro/codecs/basic.py": [("decode", "BasicDecoder", "decode"), ("encode", "BasicEncoder", "encode")],
    "mashumaro/codecs/json.py": [("json_decode", "JSONDecoder", "decode"), ("json_encode", "JSONEncoder", "encode")],
    "mashumaro/codecs/orjson.py": [("json_decode", "ORJSONDecoder", "decode"), ("json_encode", "ORJSONEncoder", "encode")],
    "mashumaro/codecs/yaml.py": [("yaml_decode", "YAMLDecoder", "decode"), ("yaml_encode", "YAMLEncoder", "encode")],
    "mashumaro/codecs/msgpack.py": [("msgpack_decode", "MessagePackDecoder", "decode"), ("msgpack_encode", "MessagePackEncoder", "encode")],
    "mashumaro/codecs/toml.py": [("toml_decode", "TOMLDecoder", "decode"), ("toml_encode", "TOMLEncoder", "encode")],
}


def verify_oneshot(pid):
    """contract (from C15's statement): the one-shot function's result is
    <Codec class of the module>(shape_type [, the function's own coder argument]).<method>(data),
    i.e. a codec constructed for exactly the shape_type argument on every call - no state is
    consulted, so the result cannot depend on earlier calls. Proved on the real AST for all arguments."""
    import importlib

    obs = []
    for rel, fns in ONESHOT.items():
        src = open("/repo/" + rel).read()
        mod_ast = ast.parse(src)
        m = importlib.import_module(rel[:-3].replace("/", "."))
        for (fname, cname, meth) in fns:
            oid = f"{pid}.S[{rel.split('/')[-1]}:{fname}]/fresh_codec"
            fn = [n for n in mod_ast.body if isinstance(n, ast.FunctionDef) and n.name == fname]
            if not fn:
                obs.append(dict(id=oid, status="refuted", detail="function not found"))
                continue
            fn = fn[0]
            eng = pysym.Engine()
            ex = pysym.Executor(eng, dict(m.__dict__))
            ex.assume_hasattr = True
            params = [a.arg for a in fn.args.args]
            args = {p: Tm(eng.fresh(p)) for p in params}
            try:
                paths = ex.run(fn, args)
            except pysym.NotInSubset as e:
                obs.append(dict(id=oid, status="undecided", detail=f"outside the verified subset: {e}"))
                continue
            cls = getattr(m, cname)
            probs = []
            data_p, shape_p = params[0], params[1]
            for p in paths:
                if p.kind != "return":
                    continue
                v = p.value
                ok = False
                if isinstance(v, Call) and v.key == ("meth", meth) and len(v.args) == 2 and isinstance(v.args[0], Tm) and isinstance(v.args[1], Tm):
                    recv = v.args[0].t
                    want_prefix = f"call!{_short(cls)}!{pysym._keystr(_const_key(cls))}!"
                    if (z3.is_app(recv) and recv.decl().name().startswith(want_prefix) and recv.num_args() >= 1
                            and z3.eq(recv.arg(0), args[shape_p].t) and z3.eq(v.args[1].t, args[data_p].t)
                            and all(any(z3.eq(recv.arg(i), a.t) for a in args.values()) for i in range(recv.num_args()))):
                        ok = True
                if not ok:
                    probs.append(f"result {v!r} is not {cname}({shape_p}).{meth}({data_p})")
            if not any(p.kind == "return" for p in paths):
                probs.append("no returning path")
            obs.append(dict(id=oid, status="proved" if not probs else "refuted", unit=f"{rel}:{fname}", paths=len(paths), detail="; ".join(sorted(set(probs)))[:400],
                            witness=(_oneshot_witness() if probs else None)))
    return obs


def _oneshot_witness():
    """replay: a one-shot call must agree with a freshly built codec whatever was called before"""
    import datetime
    import typing

    from mashumaro.codecs import basic

    try:
        a = basic.decode("2020-01-02", typing.Union[datetime.date, str])
        b = basic.decode("2020-01-02", typing.Union[str, datetime.date])
        fresh = basic.BasicDecoder(typing.Union[str, datetime.date]).decode("2020-01-02")
        if b != fresh or type(b) is not type(fresh):
            return {"confirmed": True, "input": "decode('2020-01-02', Union[date, str]) then decode('2020-01-02', Union[str, date])",
                    "why": f"second one-shot call returned {b!r}, a fresh BasicDecoder(Union[str, date]) returns {fresh!r}"}
    except Exception as e:  # noqa
        return {"confirmed": False, "why": f"replay raised {type(e).__name__}: {e}"}
    return None

"""C10: the most specific customization wins.

Schema family: one field ``x: AL`` with AL = Annotated[List[int], 'alias'] and marker functions
registered at any subset of {field option} + {field strategy, call dialect, Config.dialect,
Config.serialization_strategy, format (codec default) dialect} x {alias key, exact key, origin key}.
RESOLVE (from the property statement): the field's serialize/deserialize option; else the first
registration scanning keys alias > exact > origin and, per key, levels field strategy > call dialect
> Config.dialect > Config.serialization_strategy > format dialect; a dict registration without the
direction's entry does not count; pass_through leaves the value untouched; nothing registered ->
built-in behaviour.  The generated unit is proved (pysym, all inputs) to apply exactly the winner.
"""
from __future__ import annotations

import ast
import dataclasses
import itertools
import random
import time
import zlib
import typing

from . import build, g1, g2, g4, g7, harvest, pysym, ref, runner, units

LEVELS = ("fstrategy", "call", "cfgd", "cfg", "fmt")
KEYS = ("alias", "exact", "origin")
KINDS = ("dict", "ser_only", "de_only", "pass", "strategy", "strategy_ua")  # strategy_ua: SerializationStrategy(use_annotations=True)


@dataclasses.dataclass(frozen=True)
class CPoint:
    regs: tuple  # ((level, key, kind), ...)   level 'option' has key '-' and kind dict|pass
    entry: str = "mixin"  # mixin | codec
    tname: str = "AL"

    def label(self):
        r = ",".join(f"{l}.{k}:{kind}" for l, k, kind in self.regs) or "none"
        return f"[{r}]@{self.entry}" + ("" if self.tname == "AL" else f"/{self.tname}")


KEYEXPR = {"alias": "AL", "exact": "List[int]", "origin": "list"}
# NewType chain UserId -> Id -> int: each alias is offered to the customization lookup in turn, so the three key slots
# are the outer alias, the intermediate alias and the underlying type (same specificity order)
KEYEXPR_NT = {"alias": "UserId", "exact": "Id", "origin": "int"}


def marker(level, key, direction):
    return f"m_{level}_{key.replace('-', 'any')}_{direction}"


def sname(level, key):
    return f"S_{level}_{key.replace('-', 'any')}"


def class_source(p: CPoint):
    src = [g4.PRELUDE, "from mashumaro.types import SerializationStrategy", "from mashumaro.config import ADD_DIALECT_SUPPORT",
           "AL = Annotated[List[int], 'alias']", "Id = NewType('Id', int)", "UserId = NewType('UserId', Id)"]
    if p.tname == "NT":
        src.append("AL = UserId  # the field's annotation in the NewType-chain variant")
    regs = {}
    for (level, key, kind) in p.regs:
        for d in ("ser", "de"):
            src += [f"def {marker(level, key, d)}(v):", f"    return ('{level}', '{key}', '{d}', v)"]
        if kind == "strategy":
            src += [f"class {sname(level, key)}(SerializationStrategy):",
                    f"    def serialize(self, value):", f"        return {marker(level, key, 'ser')}(value)",
                    f"    def deserialize(self, value):", f"        return {marker(level, key, 'de')}(value)",
                    f"{sname(level, key)}_inst = {sname(level, key)}()"]
        if kind == "strategy_ua":
            # the annotations say Any: the value produced by the strategy is passed on unchanged
            src += [f"class {sname(level, key)}(SerializationStrategy, use_annotations=True):",
                    f"    def serialize(self, value: Any) -> Any:", f"        return {marker(level, key, 'ser')}(value)",
                    f"    def deserialize(self, value: Any) -> Any:", f"        return {marker(level, key, 'de')}(value)",
                    f"{sname(level, key)}_inst = {sname(level, key)}()"]
        regs[(level, key)] = kind

    def regexpr(level, key, kind):
        if kind == "dict":
            return f"{{'serialize': {marker(level, key, 'ser')}, 'deserialize': {marker(level, key, 'de')}}}"
        if kind == "ser_only":
            return f"{{'serialize': {marker(level, key, 'ser')}}}"
        if kind == "de_only":
            return f"{{'deserialize': {marker(level, key, 'de')}}}"
        if kind == "pass":
            return "pass_through"
        return f"{sname(level, key)}_inst"  # strategy / strategy_ua

    kx = KEYEXPR_NT if p.tname == "NT" else KEYEXPR

    def ssdict(level):
        items = [f"{kx[k]}: {regexpr(level, k, kind)}" for (l, k), kind in regs.items() if l == level]
        return "{" + ", ".join(items) + "}"

    for level, cname in (("call", "CallD"), ("cfgd", "CfgD"), ("fmt", "FmtD")):
        src.append(f"class {cname}(Dialect):")
        src.append(f"    serialization_strategy = {ssdict(level)}")
    md = []
    for (l, k), kind in regs.items():
        if l == "option":
            if kind == "pass":
                md += ["'serialize': pass_through", "'deserialize': pass_through"]
            else:
                md += [f"'serialize': {marker(l, k, 'ser')}", f"'deserialize': {marker(l, k, 'de')}"]
        if l == "fstrategy":
            md.append(f"'serialization_strategy': {regexpr(l, k, kind)}")
    ann = "Annotated[_GT, 'alias']" if p.tname == "GEN" else "AL"
    fld = f"x: {ann} = field(metadata={{{', '.join(md)}}})" if md else f"x: {ann}"
    mixin = "DataClassDictMixin" if p.entry == "mixin" else ""
    if p.tname == "GEN":
        # the field lives in a generic ancestor: its alias key is Annotated[_GT, 'alias'] with _GT := List[int]
        src += ["_GT = TypeVar('_GT')", "@dataclass", f"class GBase(Generic[_GT], {mixin}):" if mixin else "class GBase(Generic[_GT]):", f"    {fld}",
                "@dataclass", "class C(GBase[List[int]]):", "    class Config(BaseConfig):", f"        serialization_strategy = {ssdict('cfg')}"]
    else:
        src += ["@dataclass", f"class C({mixin}):" if mixin else "class C:", f"    {fld}", "    class Config(BaseConfig):",
                f"        serialization_strategy = {ssdict('cfg')}"]
    if any(l == "cfgd" for (l, _) in regs):
        src.append("        dialect = CfgD")
    if p.entry == "mixin" and any(l == "call" for (l, _) in regs):
        src.append("        code_generation_options = [ADD_DIALECT_SUPPORT]")
    if p.entry == "mixin":
        src.append("INST = C(5)" if p.tname == "NT" else "INST = C([1, 2])")
        if any(l == "call" for (l, _) in regs):
            src += ["try:", "    INST.to_dict(dialect=CallD)", "    C.from_dict({'x': 1 if AL is UserId else [1]}, dialect=CallD)", "except Exception as _e:", "    FIRST_CALL_ERROR = _e"]
    else:
        dd = ", default_dialect=FmtD" if any(l == "fmt" for (l, _) in regs) else ""
        src += ["from mashumaro.codecs.basic import BasicDecoder, BasicEncoder", f"DEC = BasicDecoder(C{dd})", f"ENC = BasicEncoder(C{dd})"]
    return "\n".join(src) + "\n"


def valid(p: CPoint):
    seen = set()
    for (l, k, kind) in p.regs:
        if (l, k) in seen:
            return False
        seen.add((l, k))
        if l == "option" and (k != "-" or kind not in ("dict", "pass")):
            return False
        if l == "fstrategy" and k != "-":
            return False
        if l in ("call",) and p.entry != "mixin":
            return False
        if l == "fmt" and p.entry != "codec":
            return False
    return True


def resolver(mod, p: CPoint, unit_levels):
    """RESOLVE as a RefGen.resolve callback for the top-level field type AL"""
    from mashumaro.helper import pass_through

    regs = {(l, k): kind for (l, k, kind) in p.regs}
    AL = mod.AL

    def winner(direction):
        d = "ser" if direction == "serialize" else "de"

        def value(l, k, kind):
            if kind == "pass":
                return pass_through
            if kind in ("strategy", "strategy_ua"):
                return getattr(mod, f"{sname(l, k)}_inst")
            if kind == "dict" or (kind == "ser_only" and d == "ser") or (kind == "de_only" and d == "de"):
                return getattr(mod, marker(l, k, d))
            return None

        if ("option", "-") in regs:
            v = value("option", "-", regs[("option", "-")])
            if v is not None:
                return v
        for key in KEYS:
            for level in unit_levels:
                kk = "-" if level == "fstrategy" else key
                kind = regs.get((level, kk))
                if kind is None:
                    continue
                v = value(level, kk, kind)
                if v is not None:
                    return v
        return None

    def resolve(t, direction):
        if t is AL or (p.tname == "GEN" and t == AL):
            return winner(direction)
        return None

    return resolve


def c10_task(payload):
    pid, p = payload
    label = p.label()
    src = class_source(p)
    obs = []
    try:
        mod, recs0 = build.build_module(src)
    except Exception as e:
        return {"obligations": [dict(id=f"{pid}.G{label}/builds", status="refuted", unit="class creation",
                                     detail=f"schema does not build: {type(e).__name__}: {e}",
                                     witness={"confirmed": True, "source": src, "why": f"{type(e).__name__}: {e}"})]}
    try:
        cls = mod.C
        if hasattr(mod, "FIRST_CALL_ERROR"):
            e = mod.FIRST_CALL_ERROR
            obs.append(dict(id=f"{pid}.G{label}/first_call", status="refuted", detail=f"{type(e).__name__}: {e}",
                            witness={"confirmed": True, "source": src, "why": f"first call with dialect raised {type(e).__name__}: {e}"}))
        recs = [r for r in harvest.RECORDER.records if recs0 and r.seq >= recs0[0].seq and r.builder is not None and r.builder.cls is cls]
        final = {}
        for r in recs:
            for n in ast.parse(r.text).body:
                if isinstance(n, ast.FunctionDef) and n.name in ("__mashumaro_from_dict__", "__mashumaro_to_dict__"):
                    final[(n.name, r.builder.dialect)] = (r, n)
        table = g4.helper_table(recs)
        for (name, dialect), (r, fn) in sorted(final.items(), key=lambda kv: (kv[0][0], str(kv[0][1]))):
            unit_levels = [l for l in LEVELS if not (l == "call" and dialect is None) and not (l == "fmt" and p.entry != "codec")]
            oid = f"{pid}.G{label}/{name}{'@call' if dialect is not None else ''}"
            res_fn = resolver(mod, p, unit_levels)

            def genf(res_fn=res_fn):
                gen = ref.RefGen()
                gen.resolve = res_fn
                return gen

            try:
                if name == "__mashumaro_from_dict__":
                    pt = g1.Point((), base="mixin" if p.entry == "mixin" else "plain")
                    object.__setattr__(pt, "exc_details", False)
                    object.__setattr__(pt, "dialect_value", dialect)
                    res = g1.verify_from_dict(cls, fn, dict(r.globals), pt, view_factory=g4.make_dec_view(cls, genf), inline=table)
                    obs.append(g4._ob(oid, res, r, "REF_DEC", cls, genf, src, {"dialect": dialect} if dialect is not None else None))
                else:
                    pp = g2.PPoint(())
                    object.__setattr__(pp, "dialect_value", dialect)
                    res = g2.verify_to_dict(cls, fn, dict(r.globals), pp, ("cfgd", "cfg"), frozenset(), view_factory=g4.make_enc_view(cls, genf), inline=table)
                    obs.append(g4._ob(oid, res, r, "REF_ENC", cls, genf, src, {"dialect": dialect} if dialect is not None else None))
            except (pysym.NotInSubset, ref.Unsupported) as e:
                obs.append(dict(id=oid, status="undecided", detail=f"outside the verified subset: {e}", unit=r.text[:600]))
        if not final:
            obs.append(dict(id=f"{pid}.G{label}/units", status="error", detail="no harvested units"))
        return {"obligations": obs}
    finally:
        build.drop_module(mod)


def lattice(tier, seed=0):
    slots = [("option", "-")] + [("fstrategy", "-")] + [(l, k) for l in ("call", "cfgd", "cfg", "fmt") for k in KEYS]
    pts = []
    for entry in ("mixin", "codec"):
        avail = [s for s in slots if not (s[0] == "call" and entry != "mixin") and not (s[0] == "fmt" and entry != "codec")]
        pts.append(CPoint((), entry))
        for s in avail:
            kinds = ("dict", "pass") if s[0] == "option" else KINDS
            for kind in kinds:
                pts.append(CPoint(((s[0], s[1], kind),), entry))
        for a, b in itertools.combinations(avail, 2):
            pts.append(CPoint(((a[0], a[1], "dict"), (b[0], b[1], "dict")), entry))
            if tier == "thorough" or (a[0] != "option" and zlib.crc32(repr((a, b)).encode()) % 3 == 0):
                pts.append(CPoint(((a[0], a[1], "ser_only"), (b[0], b[1], "dict")), entry))
                pts.append(CPoint(((a[0], a[1], "de_only"), (b[0], b[1], "strategy" if b[0] != "option" else "dict")), entry))
                pts.append(CPoint(((a[0], a[1], "pass" if a[0] != "option" else "dict"), (b[0], b[1], "dict")), entry))
        rnd = random.Random(1234)  # fixed: which obligations exist never depends on VERIF_SEED
        n = 40 if tier == "quick" else 400
        for _ in range(n):
            k = rnd.randint(3, len(avail))
            chosen = rnd.sample(avail, k)
            regs = []
            for s in chosen:
                kinds = ("dict", "pass") if s[0] == "option" else KINDS
                regs.append((s[0], s[1], rnd.choice(kinds)))
            pts.append(CPoint(tuple(sorted(regs)), entry))
        pts.append(CPoint(tuple((s[0], s[1], "dict") for s in avail), entry))
        pts.append(CPoint(tuple((s[0], s[1], "dict") for s in avail if s[0] != "option"), entry))
    # the same field declared in a generic ancestor (alias key = the annotation with its parameters resolved)
    for q in list(pts):
        if len(q.regs) <= 2 and all(kind in ("dict", "strategy") for (_, _, kind) in q.regs) and (tier == "thorough" or zlib.crc32(q.label().encode()) % 2 == 0 or len(q.regs) == 1):
            pts.append(CPoint(q.regs, q.entry, "GEN"))
    for q in list(pts):
        if q.tname == "AL" and len(q.regs) <= 2 and (tier == "thorough" or zlib.crc32(("nt" + q.label()).encode()) % 2 == 0 or len(q.regs) == 1):
            pts.append(CPoint(q.regs, q.entry, "NT"))
    seen, out = set(), []
    for p in pts:
        if p.label() not in seen and valid(p):
            seen.add(p.label())
            out.append(p)
    return out


def check(pid, tier):
    t0 = time.time()
    pts = lattice(tier)
    res = runner.run_pool(c10_task, [(pid, p) for p in pts], chunks=2)
    # the format-dialect level of the mixins (call dialect > format dialect > built-in), incl. the
    # per-format dialect caches that keep the levels apart
    fpts = [g7.FPoint(m, "eager", True, fs, False, cd) for m in ("msgpack", "orjson", "toml") for fs in ("native", "native2")
            for cd in ("none", "strategy")]
    res += runner.run_pool(g7.g7_task, [(pid, p) for p in fpts], chunks=1)
    obs, crashes = [], []
    for r in res:
        if "crash" in r:
            crashes.append(r["crash"] + " @ " + r["payload"] + "\n" + r["trace"][-500:])
        else:
            obs.extend(r["obligations"])
    # L-src contracts of the resolution functions themselves (for every registry content)
    try:
        from . import s3resolve

        obs += s3resolve.all_obligations(pid)
    except Exception as e:  # noqa
        import traceback

        crashes.append(f"s3resolve: {type(e).__name__}: {e}\n" + traceback.format_exc()[-500:])
    # S11: a named tuple's engine option is not handed to its members (they keep their own customization levels);
    # S12: get_config() sees every option the class's Config declares, however the Config is written
    from . import s11engine, s12config

    for m_ in (s11engine, s12config):
        o_, c_ = m_.obligations(pid)
        obs += o_
        crashes += c_
    return runner.finish(
        pid, tier, obs, t0,
        technique="RESOLVE (lexicographic minimum over field option, key specificity, level) computed from the schema by an independent resolver; the generated from_dict/to_dict unit (default and call-dialect, mixin and codec holder) is proved by symbolic execution (pysym, z3) to apply exactly the winning registration for all inputs",
        units=len(pts),
        extra_cov={"points": len(pts), "explanation": "every single registration slot x kind, every pair of slots, sampled larger subsets (fixed sample) and the full sets; one obligation per compiled unit and direction"},
        trusted={"marker functions are uninterpreted; the callee's identity is what is proved",
                 "S5 first-match rule (DESIGN 2.5): a loop nest whose body returns f(element) or preserves the invariant returns f(first contributing element)",
                 "S3/S4: getattr(ns, option, MISSING) and dict.get are total functions; is_hashable / is_dialect_subclass are pure and do not raise; get_config is pure, its value is the subject of S12"},
        functions=["pack.get_overridden_serialization_method / unpack.get_overridden_deserialization_method / CodeBuilder.iter_serialization_strategies (through the code they make the generator emit)",
                   "builder.py:CodeBuilder.get_dialect_or_config_option (S3, real AST)", "builder.py:CodeBuilder.iter_serialization_strategies + private generator (S4, real AST, ghost yield list)",
                   "pack.py:get_overridden_serialization_method, unpack.py:get_overridden_deserialization_method (S5: prologue + loop-body Hoare triple, real AST)"],
        crashes=crashes,
    )

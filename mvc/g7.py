"""G7/G8: format entry points, lazy / postponed stubs and dialect dispatchers
(properties C04, C13, C14; format-dialect clause of C02).

Three kinds of obligations per schema point, all decided on the texts mashumaro really generates:

  params   the builder that produced a unit has exactly the parameters the mixin declares for that
           entry point (format name, format dialect, encoder/decoder, encoder kwargs)
  stub     every ``CodeBuilder(...)`` call embedded in a text (lazy / postponed stub, dialect
           dispatcher) rebuilds *the slot the text itself lives in*, with the same class, format,
           coder and default dialect; the lazy stub cannot become lazy again (decreases); the
           re-dispatch targets that slot and forwards every parameter; the cache name is the
           format's own
  semantic after the first call every slot holds a non-stub unit, the first call did not fail, and
           the unit is proved (pysym, all inputs) equal to the reference of its *effective dialect*:
           to_<fmt>(x) = encoder(PROJECT(REF_ENC under the dialect)), from_<fmt>(s) =
           FROM_SPEC(decoder(s)) - the same obligations as the eager twin, which is how
           "lazy == eager" and "dialect=D == default dialect D" are decided (shared reference term).
"""
from __future__ import annotations

import ast
import dataclasses
import itertools
import time
import typing

import z3

from . import build, g1, g2, g4, harvest, pysym, ref, runner, units
from .pysym import Call, LD, Ob, Tm, _const_key, _short

MIXINS = {
    "dict": ("mashumaro", "DataClassDictMixin", None),
    "orjson": ("mashumaro.mixins.orjson", "DataClassORJSONMixin", "OrjsonDialect"),
    "msgpack": ("mashumaro.mixins.msgpack", "DataClassMessagePackMixin", "MessagePackDialect"),
    "toml": ("mashumaro.mixins.toml", "DataClassTOMLMixin", "TOMLDialect"),
}

FIELDS = {
    "native": ["a: bytes", "b: Optional[datetime.date] = None", "c: List[int] = field(default_factory=list)"],
    "native2": ["u: uuid.UUID", "t: Optional[datetime.datetime] = None", "e: bytearray = field(default_factory=bytearray)"],
    "holes": ["a: H1", "b: Optional[H2] = None", "c: Dict[str, int] = field(default_factory=dict)"],
    "small": ["a: bytes", "b: Optional[datetime.date] = None"],
    "selfref": ["a: bytes", "b: Optional[datetime.date] = None", "s: Optional[Self] = None"],
    # C is a subclass of a class with a Self field and adds a field of its own
    "selfsub": ["t: int = 0"],
    # a nested *plain* dataclass (no mixin) that opted in to dialect support itself
    "plainnested": ["a: bytes", "pn: Optional[PN] = None", "pl: List[PN] = field(default_factory=list)"],
    # a nested class with a class-level discriminator: the variants' units are built at run time, on the first lookup miss
    "discriminated": ["d: DBase", "dl: List[DBase] = field(default_factory=list)"],
    # a nested plain dataclass with a field typed with its own SUBCLASS (not a self-reference: the subclass needs its own units)
    "plainsub": ["root: PNode", "t: int = 0"],
    # a specialised generic mixin class nested in C (units keyed by a hash of the type arguments)
    "generic": ["g: GBox[datetime.date]", "h: Optional[GBox[bytes]] = None"],
    # a generic class whose field is another generic class specialised with the SAME TypeVar twice, once nested
    "generic2": ["p: GPage[datetime.date]"],
}


@dataclasses.dataclass(frozen=True)
class FPoint:
    mixin: str = "dict"
    mode: str = "eager"  # eager | lazy | postponed
    dialect_support: bool = False
    fields: str = "native"
    nested: bool = False
    call_dialect: str = "none"  # none | strategy | options
    cfg_dialect: bool = False  # the class also names a Config.dialect (a level between the call dialect and the format's)

    def label(self):
        tag = "{generic+D}" if (self.fields == "generic" and self.dialect_support) else ""
        if self.fields == "discriminated" and self.mixin != "dict":
            tag = "{subclass-instance}"  # the holder's field is typed with the base, the value is an instance of a subclass (format units are built per declared type)
        return f"[{self.mixin}/{self.mode}/{self.fields}{'/D' if self.dialect_support else ''}{'/nested' if self.nested else ''}{'/call=' + self.call_dialect if self.call_dialect != 'none' else ''}{'/cfgD' if self.cfg_dialect else ''}]{tag}"


def class_source(p: FPoint):
    mod, mixname, _ = MIXINS[p.mixin]
    src = [g4.PRELUDE, f"from {mod} import {mixname}", "from mashumaro.config import ADD_DIALECT_SUPPORT"]
    src += ["def _ser_date(v):", "    return v.toordinal()", "def _de_date(v):", "    return datetime.date.fromordinal(v)",
            "def _ser_bytes(v):", "    return v.hex()", "def _de_bytes(v):", "    return bytes.fromhex(v)"]
    src.append("class CallD(Dialect):")
    if p.call_dialect == "strategy":
        src.append("    serialization_strategy = {datetime.date: {'serialize': _ser_date, 'deserialize': _de_date}, bytes: {'serialize': _ser_bytes, 'deserialize': _de_bytes}}")
    elif p.call_dialect == "options":
        src.append("    omit_none = True")
        src.append("    no_copy_collections = ()")
    else:
        src.append("    pass")
    cfg = []
    if p.cfg_dialect:
        src += ["def _ser_int(v):", "    return str(v)", "def _de_int(v):", "    return int(v)", "class CfgD(Dialect):",
                "    serialization_strategy = {int: {'serialize': _ser_int, 'deserialize': _de_int}}"]
        cfg.append("dialect = CfgD")
    if p.mode == "lazy":
        cfg.append("lazy_compilation = True")
    if p.dialect_support:
        cfg.append("code_generation_options = [ADD_DIALECT_SUPPORT]")
    fields = list(FIELDS[p.fields])
    if p.nested or p.mode == "postponed":
        fields.append("n: Optional['Later'] = None")
    if p.fields == "plainnested":
        src += ["@dataclass", "class PN:", "    z: bytes = b''", "    w: Optional[datetime.date] = None"]
        if cfg:
            src += ["    class Config(BaseConfig):"] + ["        " + c for c in cfg]
    if p.fields == "discriminated":
        src += ["from mashumaro.types import Discriminator", "@dataclass", f"class DBase({mixname}):", "    class Config(BaseConfig):",
                "        discriminator = Discriminator(field='kind', include_subtypes=True)"] + ["        " + c for c in cfg]
        src += ["@dataclass", "class DSub(DBase):", "    kind: str = 'sub'", "    z: bytes = b''", "    w: Optional[datetime.date] = None"]
    if p.fields == "plainsub":
        src += ["@dataclass", "class PNode:", "    a: bytes = b''", "    sub: Optional['PLeaf'] = None"]
        if cfg:
            src += ["    class Config(BaseConfig):"] + ["        " + c for c in cfg]
        src += ["@dataclass", "class PLeaf(PNode):", "    w: int = 0"]
    if p.fields == "generic":
        src += ["_GT = TypeVar('_GT')", "@dataclass", f"class GBox(Generic[_GT], {mixname}):", "    v: _GT"]
        if cfg:
            src += ["    class Config(BaseConfig):"] + ["        " + c for c in cfg]
    if p.fields == "generic2":
        src += ["_GA = TypeVar('_GA')", "_GB = TypeVar('_GB')", "_GT = TypeVar('_GT')",
                "@dataclass", f"class GPair(Generic[_GA, _GB], {mixname}):", "    first: _GA", "    second: _GB"]
        if cfg:
            src += ["    class Config(BaseConfig):"] + ["        " + c for c in cfg]
        src += ["@dataclass", f"class GPage(Generic[_GT], {mixname}):", "    cursor: GPair[_GT, List[_GT]]", "    last: Optional[_GT] = None"]
        if cfg:
            src += ["    class Config(BaseConfig):"] + ["        " + c for c in cfg]
    if p.fields == "selfsub":
        src += ["@dataclass", f"class Node({mixname}):", "    a: bytes = b''", "    s: Optional[Self] = None"]
        if cfg:
            src += ["    class Config(BaseConfig):"] + ["        " + c for c in cfg]
        src += ["@dataclass", "class C(Node):"] + ["    " + f for f in fields]
    else:
        src += ["@dataclass", f"class C({mixname}):"] + ["    " + f for f in fields]
    if cfg:
        src += ["    class Config(BaseConfig):"] + ["        " + c for c in cfg]
    if p.nested or p.mode == "postponed":
        src += ["@dataclass", f"class Later({mixname}):", "    z: bytes = b''", "    w: Optional[datetime.date] = None"]
        if cfg:
            src += ["    class Config(BaseConfig):"] + ["        " + c for c in cfg]
    return "\n".join(src) + "\n"


def sample_instance(mod, p: FPoint):
    import datetime
    import uuid

    kw = {}
    if p.fields in ("native", "small", "selfref"):
        kw = dict(a=b"ab", b=datetime.date(2020, 1, 2))
        if p.fields == "native":
            kw.update(c=[1, 2])
    elif p.fields == "native2":
        kw = dict(u=uuid.UUID(int=5), t=None, e=bytearray(b"x"))
    else:
        kw = dict(a=mod.H1(1), b=None, c={"k": 1})
    if p.nested or p.mode == "postponed":
        kw["n"] = mod.Later(b"z", None)
    if p.fields == "plainnested":
        kw = dict(a=b"ab", pn=mod.PN(b"z", datetime.date(2020, 1, 2)), pl=[mod.PN(b"y", None)])
    if p.fields == "discriminated":
        kw = dict(d=mod.DSub("sub", b"z", datetime.date(2020, 1, 2)), dl=[mod.DSub("sub", b"y", None)])
    if p.fields == "plainsub":
        kw = dict(root=mod.PNode(b"ab", mod.PLeaf(b"cd", None, 5)), t=1)
    if p.fields == "generic2":
        kw = dict(p=mod.GPage(mod.GPair(datetime.date(2020, 1, 2), [datetime.date(2020, 3, 4)]), datetime.date(2020, 5, 6)))
    if p.fields == "generic":
        kw = dict(g=mod.GBox(datetime.date(2020, 1, 2)), h=mod.GBox(b"xy"))
    if p.fields == "selfsub":
        kw = dict(a=b"ab", t=1, s=mod.C(a=b"cd", t=2, s=mod.C(a=b"ef", t=3)))
    if p.fields == "selfref":
        kw["s"] = mod.C(**dict(kw, a=b"cd"))
    return mod.C(**kw)


def entry_points(p: FPoint):
    """(method to call on the instance, method to call on the class) per format"""
    eps = [("to_dict", "from_dict")]
    if p.mixin == "orjson":
        eps.append(("to_jsonb", "from_json"))
    elif p.mixin == "msgpack":
        eps.append(("to_msgpack", "from_msgpack"))
    elif p.mixin == "toml":
        eps.append(("to_toml", "from_toml"))
    return eps


# ---------------------------------------------------------------------------------------------
# declared parameters (the specification reads the mixin's declaration, not the generated text)
# ---------------------------------------------------------------------------------------------
def declared_params(cls):
    """{(direction, format_name): dict(dialect, coder, encoder_kwargs)} from the
    __mashumaro_builder_params of every ancestor mixin"""
    out = {}
    for anc in cls.__mro__:
        bp = getattr(anc, f"_{anc.__name__}__mashumaro_builder_params", None)
        if not bp:
            continue
        pk, up = bp.get("packer", {}), bp.get("unpacker", {})
        out.setdefault(("to", pk.get("format_name", "dict")), dict(dialect=pk.get("dialect"), coder=pk.get("encoder"), encoder_kwargs=pk.get("encoder_kwargs") or {}))
        out.setdefault(("from", up.get("format_name", "dict")), dict(dialect=up.get("dialect"), coder=up.get("decoder"), encoder_kwargs={}))
    return out


import re as _re

_HASH_SUFFIX = _re.compile(r"_[0-9a-f]{32}$")


def unit_identity(name):
    """method name -> (direction, format, has_coder) per the documented naming scheme (S7)"""
    if not (name.startswith("__mashumaro_") and name.endswith("__")):
        return None
    core = name[len("__mashumaro_"):-2]
    core = _HASH_SUFFIX.sub("", core)  # dict-form units of a specialised generic class carry a hash of the type arguments
    for d in ("to", "from"):
        if core == f"{d}_dict":
            return (d, "dict", False)
        if core.startswith(f"{d}_dict_"):
            return (d, core[len(f"{d}_dict_"):], False)
        if core.startswith(f"{d}_"):
            return (d, core[len(d) + 1:], True)
    return None


# ---------------------------------------------------------------------------------------------
# stub / dispatcher obligations
# ---------------------------------------------------------------------------------------------
def _branch_context(fn):
    """[(CodeBuilder call node, 'default' | 'dialect', enclosing statement list)]"""
    out = []

    def walk(stmts, ctx):
        for i, s in enumerate(stmts):
            if isinstance(s, ast.If):
                t = ast.unparse(s.test)
                if t == "dialect is None":
                    walk(s.body, "default")
                    walk(s.orelse, "dialect")
                    continue
                walk(s.body, ctx)
                walk(s.orelse, ctx)
                continue
            for n in ast.walk(s):
                if isinstance(n, ast.Call) and isinstance(n.func, ast.Attribute) and n.func.attr in ("add_pack_method", "add_unpack_method"):
                    inner = n.func.value
                    if isinstance(inner, ast.Call) and isinstance(inner.func, ast.Name) and inner.func.id == "CodeBuilder":
                        out.append((inner, n.func.attr, ctx, stmts, i))
    walk(fn.body, "any")
    return out


def stub_obligations(record, cls):
    """problems of the embedded rebuild calls of one harvested text (see module docstring)"""
    b = record.builder
    problems = []
    try:
        mod = ast.parse(record.text)
    except SyntaxError as e:
        return [f"text does not parse: {e}"], 0
    fns = [n for n in mod.body if isinstance(n, ast.FunctionDef)]
    if not fns or b is None:
        return [], 0
    fn = fns[0]
    ident = unit_identity(fn.name)
    if ident is None:
        return [], 0
    direction, fmt, has_coder = ident
    g = record.globals
    cfg = b.get_config()
    params = [a.arg for a in fn.args.args] + [a.arg for a in fn.args.kwonlyargs]
    kwonly = [a.arg for a in fn.args.kwonlyargs]
    coder_param = "encoder" if direction == "to" else "decoder"
    calls = _branch_context(fn)
    kind = "packer" if direction == "to" else "unpacker"
    want_cache = f"__dialect_{b.format_name}_{kind}_cache__"

    def ev(node):
        if isinstance(node, ast.Name) and node.id == "dialect":
            return ("param", "dialect")
        if isinstance(node, ast.Name) and node.id == "cls":
            return ("cls",)
        if isinstance(node, ast.Attribute) and ast.unparse(node) == "self.__class__":
            return ("cls",)
        try:
            return ("val", eval(compile(ast.Expression(node), "<stub>", "eval"), dict(g)))
        except Exception as e:  # noqa
            return ("err", f"{type(e).__name__}: {e}")

    for (call, method, ctx, stmts, idx) in calls:
        where = f"{fn.name}[{ctx}]"
        want_method = "add_pack_method" if direction == "to" else "add_unpack_method"
        if method != want_method:
            problems.append(f"{where}: rebuild calls {method}, expected {want_method}")
        if not call.args or ev(call.args[0]) != ("cls",):
            problems.append(f"{where}: rebuilt builder is not for the class itself")
        kw = {k.arg: ev(k.value) for k in call.keywords}
        # SLOT of the rebuilt builder must be the slot this text lives in
        fm = kw.get("first_method")
        if fm != ("val", fn.name):
            problems.append(f"{where}: first_method is {fm}, not {fn.name!r}")
        # the slot is (class, type arguments, method, format, dialect): a specialised unit of a generic class
        # has to be rebuilt for its own type arguments, otherwise another slot is filled and this one stays a stub
        ta = ev(call.args[1]) if len(call.args) > 1 else kw.get("type_args", ("val", ()))
        got_ta = tuple(ta[1]) if ta[0] == "val" and ta[1] is not None else ta
        if got_ta != tuple(b.initial_type_args or ()):
            problems.append(f"{where}: rebuilt with type arguments {got_ta}, the unit was compiled for {tuple(b.initial_type_args or ())}")
        if kw.get("format_name", ("val", "dict")) != ("val", b.format_name):
            problems.append(f"{where}: format_name {kw.get('format_name')} differs from the unit's {b.format_name!r}")
        dd = kw.get("default_dialect", ("val", None))
        if dd[0] != "val" or dd[1] is not b.default_dialect:
            problems.append(f"{where}: default_dialect {dd[1] if dd[0] == 'val' else dd} is not the unit's format dialect {b.default_dialect}")
        if ctx in ("default", "any"):
            # lazy / postponed stub of the default slot
            if b.dialect is not None:
                problems.append(f"{where}: the unit compiled for call dialect {b.dialect.__name__} is a stub that rebuilds the default slot (its own slot is never filled: unbounded re-dispatch)")
            if "dialect" in kw and kw["dialect"] != ("val", None):
                problems.append(f"{where}: stub of the default slot rebuilds with a dialect")
            if kw.get("allow_postponed_evaluation") != ("val", False):
                problems.append(f"{where}: rebuilt builder may take the lazy path again (no decreasing measure)")
            coder = kw.get(coder_param, ("val", None))
            mine = b.encoder if direction == "to" else b.decoder
            if coder[0] != "val" or coder[1] is not mine:
                problems.append(f"{where}: {coder_param} {coder} is not the unit's {mine}")
            if direction == "to":
                ek = kw.get("encoder_kwargs", ("val", {}))
                want = b._get_encoder_kwargs()
                if ek[0] != "val" or ek[1] != want:
                    problems.append(f"{where}: encoder_kwargs {ek} differ from the declared {want}")
            # the re-dispatch
            nxt = stmts[idx + 1] if idx + 1 < len(stmts) else None
            ok = False
            if isinstance(nxt, ast.Return) and isinstance(nxt.value, ast.Call) and isinstance(nxt.value.func, ast.Attribute):
                c = nxt.value
                recv = ast.unparse(c.func.value)
                if c.func.attr == fn.name and recv in ("cls", "self"):
                    passed = {k.arg for k in c.keywords if isinstance(k.value, ast.Name) and k.value.id == k.arg}
                    need = set(kwonly) | ({coder_param} if coder_param in params else set())
                    from mashumaro.config import ADD_DIALECT_SUPPORT

                    if ADD_DIALECT_SUPPORT not in cfg.code_generation_options:
                        need.discard("dialect")  # the parameter exists but is inert without dialect support
                    posn = [ast.unparse(a) for a in c.args]
                    if need <= passed and (direction == "to" or posn == ["d"]):
                        ok = True
                    else:
                        problems.append(f"{where}: re-dispatch drops parameters {sorted(need - passed)}")
                        ok = True
            if not ok:
                problems.append(f"{where}: the stub does not re-dispatch to its own slot {fn.name}")
        else:
            # dialect dispatcher
            if kw.get("dialect") != ("param", "dialect"):
                problems.append(f"{where}: rebuilt builder does not get the call's dialect")
            if cfg.lazy_compilation and kw.get("allow_postponed_evaluation") != ("val", False):
                problems.append(f"{where}: with lazy_compilation the unit built for a call dialect is itself a lazy stub of the default slot (first call with dialect= never terminates)")
    # cache names used anywhere in the text
    for n in ast.walk(mod):
        if isinstance(n, ast.Attribute) and n.attr.startswith("__dialect_") and n.attr.endswith("_cache__") and n.attr != want_cache:
            problems.append(f"{fn.name}: dialect cache {n.attr} is not the format's own {want_cache}")
        if isinstance(n, ast.Constant) and isinstance(n.value, str) and n.value.startswith("__dialect_") and n.value.endswith("_cache__") and n.value != want_cache:
            problems.append(f"{fn.name}: dialect cache {n.value} is not the format's own {want_cache}")
    # dispatcher hit/miss calls forward every keyword-only flag
    for n in ast.walk(fn):
        if isinstance(n, ast.Call):
            f = n.func
            tgt = None
            if isinstance(f, ast.Name) and f.id in ("packer", "unpacker"):
                tgt = f.id
            elif isinstance(f, ast.Subscript) and isinstance(f.value, ast.Attribute) and f.value.attr == want_cache:
                tgt = "cache[dialect]"
            if tgt:
                passed = {k.arg for k in n.keywords if isinstance(k.value, ast.Name) and k.value.id == k.arg}
                need = set(kwonly) - {"orjson_options"}
                if not need <= passed:
                    problems.append(f"{fn.name}: call of {tgt} drops flags {sorted(need - passed)}")
                posn = [ast.unparse(a) for a in n.args]
                want_pos = ["self"] if direction == "to" else ["cls", "d"]
                if posn != want_pos:
                    problems.append(f"{fn.name}: call of {tgt} passes {posn}, expected {want_pos}")
    return problems, len(calls)


# ---------------------------------------------------------------------------------------------
# effective dialect -> reference
# ---------------------------------------------------------------------------------------------
def variant_build_problems(record):
    """discriminator helpers build a variant's unit at run time (`CodeBuilder(variant, dialect=.., ..).add_unpack_method()`) and then
    reach it as the attribute `<variant>.<method>(value, flags)`: the unit built must therefore be the variant's default unit (dialect
    None - a build for a call dialect only fills the variant's dialect cache and leaves the attribute missing or inherited)."""
    b = record.builder
    if b is None:
        return []
    try:
        mod = ast.parse(record.text)
    except SyntaxError:
        return []
    problems = []
    for fn in [n for n in mod.body if isinstance(n, ast.FunctionDef) and n.name.startswith("__unpack_")]:
        reads_cache = any(isinstance(n, ast.Subscript) and isinstance(n.value, ast.Attribute) and n.value.attr.startswith("__dialect_") for n in ast.walk(fn))
        for c in ast.walk(fn):
            if not (isinstance(c, ast.Call) and isinstance(c.func, ast.Name) and c.func.id == "CodeBuilder" and c.args and isinstance(c.args[0], ast.Name) and c.args[0].id == "variant"):
                continue
            kw = {k.arg: k.value for k in c.keywords}
            if "attrs" in kw:
                continue  # codec path: the unit is stored in the holder registry, codec builders carry no call dialect
            dv = kw.get("dialect")
            if isinstance(dv, ast.Constant) and dv.value is None:
                continue
            if isinstance(dv, ast.Name) and dv.id == "_dialect":
                actual = b.dialect
            else:
                actual = "?"
            if actual is not None and not reads_cache:
                problems.append(f"{fn.name}: in the unit compiled for call dialect {getattr(actual, '__name__', actual)} a variant without its own unit is built with dialect={ast.unparse(dv) if dv is not None else None} "
                                f"(only its dialect cache is filled) and then reached as an attribute: AttributeError, or an ancestor's unit")
    return problems


def _has_dialect_support(c):
    from mashumaro.config import ADD_DIALECT_SUPPORT

    return ADD_DIALECT_SUPPORT in (getattr(getattr(c, "Config", None), "code_generation_options", ()) or ())


def nested_call(owner, fmt, dialect_value):
    """how a nested dataclass position is (de)serialized inside a unit of format ``fmt``: by the
    nested class's dict-form unit of the same format; the dialect flag is forwarded iff both classes
    enabled it (C08 rule)"""
    def call(gen, t, x, direction):
        suffix = "" if fmt == "dict" else f"_{fmt}"
        args = typing.get_args(t)
        if args:
            # a specialised generic class: the unit compiled for these type arguments (named by the library's
            # own key function, whose injectivity is S6's subject)
            from mashumaro.core.meta.helpers import hash_type_args

            suffix += f"_{hash_type_args(args)}"
            t = typing.get_origin(t)
        flags = ""
        if _has_dialect_support(owner) and _has_dialect_support(t):
            flags = f"dialect={gen.bind(dialect_value, 'dialect') if dialect_value is not None else 'None'}"
        if direction == "from":
            sep = ", " if flags else ""
            return f"{gen.bind(t)}.__mashumaro_from_dict{suffix}__({x}{sep}{flags})"
        return f"{x}.__mashumaro_to_dict{suffix}__({flags})"

    return call


def effective_genf(levels, dataclass_call=None):
    """RefGen factory for a precedence-ordered list of dialect classes (highest first)"""
    from mashumaro.core.const import Sentinel

    levels = [l for l in levels if l is not None]

    def resolve(t, direction):
        from mashumaro.helper import pass_through
        from mashumaro.types import SerializationStrategy

        keys = [t]
        o = typing.get_origin(t)
        if o is not None:
            keys.append(o)
        for k in keys:
            try:
                hash(k)
            except TypeError:
                continue
            for lv in levels:
                reg = (getattr(lv, "serialization_strategy", None) or {}).get(k)
                if reg is None:
                    continue
                if reg is pass_through:
                    return pass_through
                if isinstance(reg, dict):
                    r = reg.get(direction)
                    if r is not None:
                        return r
                    continue
                if isinstance(reg, SerializationStrategy):
                    return reg
        return None

    no_copy = ()
    for lv in levels:
        v = getattr(lv, "no_copy_collections", Sentinel.MISSING)
        if v is not Sentinel.MISSING:
            no_copy = tuple(v)
            break

    def genf():
        gen = ref.RefGen(no_copy=no_copy)
        gen.resolve = resolve
        gen.dataclass_call = dataclass_call
        return gen

    return genf


def effective_opts(levels_named):
    """g2 option tuples from dialect classes: [(level name, dialect class)]"""
    from mashumaro.core.const import Sentinel

    out = []
    for name, lv in levels_named:
        if lv is None:
            continue
        for opt in g2.OPTS:
            v = getattr(lv, opt, Sentinel.MISSING)
            if v is not Sentinel.MISSING:
                out.append((name, opt, bool(v)))
    return tuple(out)


# ---------------------------------------------------------------------------------------------
# the task
# ---------------------------------------------------------------------------------------------
def g7_task(payload):
    pid, p = payload
    label = p.label()
    obs = []
    src = class_source(p)
    try:
        mod, recs0 = build.build_module(src)
    except Exception as e:
        return {"obligations": [dict(id=f"{pid}.G7{label}/builds", status="refuted", unit="class creation",
                                     detail=f"schema does not build: {type(e).__name__}: {e}",
                                     witness={"confirmed": True, "source": src, "why": f"{type(e).__name__}: {e}"})]}
    try:
        cls = mod.C
        rec = harvest.RECORDER
        inst = sample_instance(mod, p)
        # ---- first calls (every entry point, default and with a call dialect)
        first = []
        docs = {}
        for (to_m, from_m) in entry_points(p):
            variants = [("default", {})]
            if p.dialect_support:
                variants.append(("dialect", {"dialect": mod.CallD}))
            for vname, kw in variants:
                for which in ("to", "from"):
                    nm = to_m if which == "to" else from_m
                    try:
                        if which == "to":
                            docs[(to_m, vname)] = getattr(inst, to_m)(**kw)
                        else:
                            doc = docs.get((to_m, vname))
                            if doc is None:
                                continue
                            back = getattr(cls, from_m)(doc, **kw)
                            if back != inst:
                                first.append(f"{from_m}({vname}) of the encoded document returned {back!r}, not {inst!r}")
                    except RecursionError:
                        first.append(f"{nm}({vname}): RecursionError on the first call")
                    except Exception as e:  # noqa
                        first.append(f"{nm}({vname}): {type(e).__name__}: {str(e)[:120]}")
        obs.append(dict(id=f"{pid}.G7{label}/first_call", status="proved" if not first else "refuted", unit="native first calls of every entry point",
                        detail="; ".join(first)[:700], witness=({"confirmed": True, "source": src, "why": first[0]} if first else None)))
        if p.dialect_support:
            # the other order on a fresh family: the very first call of every entry point carries the dialect
            hist = []
            mod2 = None
            try:
                mod2, _ = build.build_module(src)
                inst2 = sample_instance(mod2, p)
                for (to_m, from_m) in entry_points(p):
                    try:
                        d1 = getattr(inst2, to_m)(dialect=mod2.CallD)
                        want = docs.get((to_m, "dialect"))
                        if want is not None and d1 != want:
                            hist.append(f"{to_m}(dialect) as the very first call gives {d1!r}, after a default call it gives {want!r}")
                        back = getattr(mod2.C, from_m)(d1, dialect=mod2.CallD)
                        if back != inst2:
                            hist.append(f"{from_m}(dialect) as the very first call returned {back!r}")
                        d0 = getattr(inst2, to_m)()
                        want0 = docs.get((to_m, "default"))
                        if want0 is not None and d0 != want0:
                            hist.append(f"{to_m}() after a dialect call gives {d0!r}, on a fresh family {want0!r}")
                    except RecursionError:
                        hist.append(f"{to_m}/{from_m}(dialect) as the very first call: RecursionError")
                    except Exception as e:  # noqa
                        hist.append(f"{to_m}/{from_m}(dialect) as the very first call: {type(e).__name__}: {str(e)[:120]}")
            finally:
                if mod2 is not None:
                    build.drop_module(mod2)
            obs.append(dict(id=f"{pid}.H7{label}/dialect_first", status="proved" if not hist else "refuted", unit="history: dialect call before any default call, fresh family (bounded)", bounded=True,
                            detail="; ".join(hist)[:700], witness=({"confirmed": True, "source": src, "input": "first call of each entry point with dialect=CallD on freshly defined classes", "why": hist[0]} if hist else None)))
        recs = [r for r in rec.records if r.seq >= recs0[0].seq] if recs0 else []
        mine = [r for r in recs if r.builder is not None and r.builder.cls in (cls, getattr(mod, "Later", None), getattr(mod, "GBox", None), getattr(mod, "PN", None), getattr(mod, "PNode", None), getattr(mod, "PLeaf", None), getattr(mod, "DBase", None), getattr(mod, "DSub", None), getattr(mod, "GPair", None), getattr(mod, "GPage", None))]
        # ---- params
        decl = {}
        probs = []
        nunits = 0
        for r in mine:
            b = r.builder
            m = ast.parse(r.text)
            for n in m.body:
                if not isinstance(n, ast.FunctionDef):
                    continue
                ident = unit_identity(n.name)
                if ident is None:
                    continue
                nunits += 1
                direction, fmt, has_coder = ident
                d = (declared_params(b.cls) or declared_params(cls)).get((direction, fmt))  # a nested plain dataclass is compiled for its holder's entry points
                if d is None:
                    probs.append(f"{n.name}: no mixin declares an entry point ({direction}, {fmt})")
                    continue
                if b.format_name != fmt:
                    probs.append(f"{n.name}: compiled with format_name {b.format_name!r}")
                if b.default_dialect is not d["dialect"]:
                    probs.append(f"{n.name} of {b.cls.__name__}: compiled with default_dialect {getattr(b.default_dialect, '__name__', None)}, the mixin declares {getattr(d['dialect'], '__name__', None)}")
                coder = b.encoder if direction == "to" else b.decoder
                if has_coder and coder is not d["coder"]:
                    probs.append(f"{n.name}: compiled with coder {coder}, declared {d['coder']}")
                if not has_coder and coder is not None:
                    probs.append(f"{n.name}: a dict-form unit compiled with a coder")
        obs.append(dict(id=f"{pid}.G7{label}/params", status="proved" if not probs else "refuted", unit=f"{nunits} units", detail="; ".join(sorted(set(probs)))[:700]))
        # ---- every encoder call of a format unit (default branch, dialect cache hit, dialect cache miss) passes the declared
        #      encoder keyword arguments, each bound to its own method parameter
        eprobs, ncalls_enc = [], 0
        for r in mine:
            b = r.builder
            for n in ast.parse(r.text).body:
                if not (isinstance(n, ast.FunctionDef) and unit_identity(n.name) and unit_identity(n.name)[0] == "to" and unit_identity(n.name)[2]):
                    continue
                want = {enc_param: flag for enc_param, (flag, _v) in (b._get_encoder_kwargs() or {}).items()}
                for c in ast.walk(n):
                    if isinstance(c, ast.Call) and isinstance(c.func, ast.Name) and c.func.id == "encoder":
                        ncalls_enc += 1
                        got = {k.arg: (k.value.id if isinstance(k.value, ast.Name) else ast.unparse(k.value)) for k in c.keywords}
                        if got != want:
                            eprobs.append(f"{n.name} of {b.cls.__name__}: {ast.unparse(c)[:120]} passes {got or 'no keyword'}, the mixin declares {want or 'none'}")
        if ncalls_enc:
            ew = None
            if eprobs and p.mixin == "orjson":
                try:
                    import orjson as _oj

                    kw = {"dialect": mod.CallD} if p.dialect_support else {}
                    out = inst.to_jsonb(orjson_options=_oj.OPT_INDENT_2, **kw)
                    if b"\n" not in out:
                        ew = {"confirmed": True, "source": src, "input": f"to_jsonb(orjson_options=orjson.OPT_INDENT_2{', dialect=CallD' if kw else ''})", "got": repr(out)[:200],
                              "why": "the document is not indented: orjson_options did not reach the encoder"}
                except Exception as e:  # noqa
                    ew = {"confirmed": True, "source": src, "why": f"to_jsonb(orjson_options=...) raised {type(e).__name__}: {e}"[:200]}
            obs.append(dict(id=f"{pid}.G7{label}/encoder_calls", status="proved" if not eprobs else "refuted", unit=f"{ncalls_enc} encoder calls in the format units",
                            detail="; ".join(sorted(set(eprobs)))[:700], witness=ew))
        # ---- stubs / dispatchers / slots
        probs, ncalls = [], 0
        for r in mine:
            pr, nc = stub_obligations(r, cls)
            probs += pr
            ncalls += nc
            probs += units.slot_obligations(r)
            probs += units.owned_call_problems(r)
            probs += variant_build_problems(r)
        ta_probs = [x for x in probs if "rebuilt with type arguments" in x]
        probs = [x for x in probs if "rebuilt with type arguments" not in x]
        obs.append(dict(id=f"{pid}.G7{label}/stub_type_args", status="proved" if not ta_probs else "refuted", unit=f"{ncalls} embedded rebuild calls in {len(mine)} texts",
                        detail="; ".join(sorted(set(ta_probs)))[:900],
                        witness=({"confirmed": bool(first), "source": src, "why": (first[0] if first else sorted(set(ta_probs))[0])} if ta_probs else None)))
        stub_w = ({"confirmed": bool(first), "source": src, "why": (first[0] if first else sorted(set(probs))[0])} if probs else None)
        if probs and p.fields == "discriminated" and p.dialect_support and any("variant without its own unit" in x for x in probs):
            # replay: on a fresh family the very first decode of the discriminated base carries the dialect
            mod3 = None
            try:
                mod3, _ = build.build_module(src)
                to_m, from_m = entry_points(p)[-1]
                sub = mod3.DSub("sub", b"z", None)
                doc = getattr(sub, to_m)(dialect=mod3.CallD)
                try:
                    back = getattr(mod3.DBase, from_m)(doc, dialect=mod3.CallD)
                    bad = None if back == sub else f"returned {back!r}"
                except Exception as e:  # noqa
                    bad = f"raised {type(e).__name__}: {str(e)[:160]}"
                if bad:
                    stub_w = {"confirmed": True, "source": src, "input": f"DBase.{from_m}(DSub('sub', b'z', None).{to_m}(dialect=CallD), dialect=CallD) as the first call on freshly defined classes", "why": bad}
            except Exception:  # noqa
                pass
            finally:
                if mod3 is not None:
                    build.drop_module(mod3)
        obs.append(dict(id=f"{pid}.G7{label}/stubs", status="proved" if not probs else "refuted", unit=f"{ncalls} embedded rebuild calls in {len(mine)} texts",
                        detail="; ".join(sorted(set(probs)))[:900], witness=stub_w))
        # ---- semantic: final units against the reference of their effective dialect
        final = {}
        gbox = getattr(mod, "GBox", None)
        gens = [k for k in (gbox, getattr(mod, "GPair", None), getattr(mod, "GPage", None)) if k is not None]
        for r in mine:
            b = r.builder
            if b.cls is not cls and not (b.cls in gens and b.initial_type_args and b.dialect is None):
                continue
            m = ast.parse(r.text)
            for n in m.body:
                if isinstance(n, ast.FunctionDef) and unit_identity(n.name):
                    final[(n.name, b.dialect)] = (r, n)
        table = g4.helper_table(recs)
        uidx = units.unit_index(rec.records)
        for (name, dialect), (r, fn) in sorted(final.items(), key=lambda kv: (kv[0][0], str(kv[0][1]))):
            direction, fmt, has_coder = unit_identity(name)
            oid = f"{pid}.G7{label}/{name}{'@' + dialect.__name__ if dialect is not None else ''}"
            b = r.builder
            ucls = b.cls  # the class this unit (de)serializes: C, or the generic class specialised by the unit's type arguments
            for k_ in gens:
                ref.PARAM_OVERRIDE.pop(k_, None)
            if ucls is not cls:
                ref.PARAM_OVERRIDE[ucls] = dict(zip(getattr(ucls, "__parameters__", ()), b.initial_type_args))
            text_default = _default_branch_text(fn)
            if "CodeBuilder(" in text_default:
                obs.append(dict(id=oid, status="refuted", unit=name, detail="after the first call the slot still holds a stub (no progress)", sample=r.text[:600]))
                continue
            decl = (declared_params(ucls) or declared_params(cls)).get((direction, fmt), {})
            fmt_dialect = decl.get("dialect")
            levels = [dialect, getattr(getattr(ucls, "Config", None), "dialect", None), fmt_dialect]
            # pack and unpack formats may be named differently (orjson: jsonb / json)
            genf = effective_genf(levels, nested_call(ucls, fmt, dialect))
            try:
                if direction == "from":
                    pt = g1.Point(())
                    object.__setattr__(pt, "exc_details", False)
                    object.__setattr__(pt, "dialect_value", dialect)
                    res = g1.verify_from_dict(ucls, fn, dict(r.globals), pt, view_factory=g4.make_dec_view(ucls, genf, hooks={"call": units.unit_call_hook(uidx)}), inline=table,
                                              pre_call=(decl.get("coder") if has_coder else None), hooks={"call": units.unit_call_hook(uidx)})
                    obs.append(g4._ob(oid, res, r, "REF_DEC", ucls))
                else:
                    opts = effective_opts([("call", dialect), ("fmt", fmt_dialect)])
                    pp = g2.PPoint((), opts, False, ("D",) if "dialect" in [a.arg for a in fn.args.kwonlyargs] else ())
                    object.__setattr__(pp, "dialect_value", dialect)
                    lv = ("call", "cfgd", "cfg", "fmt")
                    unwrap = _make_unwrap(decl, b, fn) if has_coder else None
                    res = g2.verify_to_dict(ucls, fn, dict(r.globals), pp, lv, frozenset(), view_factory=g4.make_enc_view(ucls, genf), inline=table,
                                            unwrap=unwrap, hooks={"call": units.unit_call_hook(uidx)})
                    ob = g4._ob(oid, res, r, "REF_ENC", ucls)
                    if ob["status"] != "proved" and not ob.get("witness") and ucls is cls:
                        try:
                            ob["witness"] = concrete_witness(mod, p, cls, name, dialect, genf, decl, has_coder, b, src)
                        except Exception as e:  # noqa
                            ob["witness_error"] = f"{type(e).__name__}: {e}"[:200]
                    obs.append(ob)
            except (pysym.NotInSubset, ref.Unsupported) as e:
                obs.append(dict(id=oid, status="undecided", detail=f"outside the verified subset: {e}", unit=r.text[:600]))
        for k_ in gens:
            ref.PARAM_OVERRIDE.pop(k_, None)
        return {"obligations": obs}
    finally:
        build.drop_module(mod)


def _default_branch_text(fn):
    """source of the part of a unit that runs when dialect is None"""
    for s in fn.body:
        if isinstance(s, ast.If) and ast.unparse(s.test) == "dialect is None":
            return "\n".join(ast.unparse(x) for x in s.body)
    return "\n".join(ast.unparse(x) for x in fn.body)


def concrete_witness(mod, p, cls, name, dialect, genf, decl, has_coder, b, src):
    """replay of a refuted `to` unit: the public call on sample instances against the reference evaluated
    concretely (REF_ENC of the effective dialect per field, None kept/omitted per the effective options,
    then the declared encoder)"""
    import dataclasses as _dc

    from . import samples

    hints = ref.resolved_hints(cls)
    insts = []
    try:
        insts.append(sample_instance(mod, p))
    except Exception:
        pass
    insts += samples.dataclass_instances(cls)
    fmt_dialect = decl.get("dialect")
    from mashumaro.core.const import Sentinel

    def opt(name_):
        for lv in (dialect, getattr(getattr(cls, "Config", None), "dialect", None), getattr(cls, "Config", None), fmt_dialect):
            v = getattr(lv, name_, Sentinel.MISSING) if lv is not None else Sentinel.MISSING
            if v is not Sentinel.MISSING and v is not None:
                return v
        return False

    omit_none = bool(opt("omit_none"))
    refs = {}
    for f in _dc.fields(cls):
        gen = genf()
        gen.owner = gen.owner or cls
        try:
            e = gen.enc(hints[f.name], "x")
            g4._ref_env(gen)
            refs[f.name] = eval("lambda x: " + e, gen.ns)
        except Exception:
            return None
    enc = decl.get("coder") if has_coder else None
    kw = {}
    for enc_param, (flag, value) in ((b._get_encoder_kwargs() or {}).items() if has_coder else ()):
        kw[enc_param] = value
    for inst in insts:
        try:
            exp = {}
            for f in _dc.fields(cls):
                v = getattr(inst, f.name)
                if v is None and omit_none:
                    continue
                exp[f.name] = None if v is None else refs[f.name](v)
            exp_out = enc(exp, **kw) if enc is not None else exp
        except Exception:
            continue
        try:
            call_kw = {"dialect": dialect} if dialect is not None else {}
            got = getattr(inst, name)(**call_kw)
            why = None if samples.same(got, exp_out) else f"{name}({'dialect=' + dialect.__name__ if dialect else ''}) = {got!r}, the reference gives {exp_out!r}"
        except Exception as e:  # noqa
            why = f"{name}() raised {type(e).__name__}: {str(e)[:160]}, the reference gives {exp_out!r}"
        if why:
            return {"confirmed": True, "source": src, "input": repr(inst), "why": why[:700]}
    return None


def _make_unwrap(decl, b, fn):
    enc = decl.get("coder")
    want_kw = {}
    for enc_param, (flag, value) in (b._get_encoder_kwargs() or {}).items():
        want_kw[enc_param] = value

    def unwrap(v, path, eng):
        if not isinstance(v, Call):
            return v, f"result is not encoder(...): {v!r}"
        if v.key != _const_key(enc):
            return v, f"result is produced by {v.name}, not by the declared encoder {_short(enc)}"
        if len(v.args) != 1:
            return v, "encoder called with several positional arguments"
        got_kw = dict(v.kw)
        if set(got_kw) != set(want_kw):
            return v, f"encoder keyword arguments {sorted(got_kw)} differ from the declared {sorted(want_kw)}"
        for k, val in want_kw.items():
            g = got_kw[k]
            if not (isinstance(g, Ob) and g.o == val):
                return v, f"encoder option {k} is {g!r}, the class configuration says {val!r}"
        return v.args[0], None

    unwrap.encoder = enc
    return unwrap


def lattice(tier):
    pts = []
    for mixin in MIXINS:
        for mode in ("eager", "lazy", "postponed"):
            for ds in (False, True):
                fsets = ["native", "native2", "holes"] if (tier == "thorough" or mode == "eager") else ["native", "native2"]
                for fs in fsets:
                    for cd in (["none"] if not ds else ["none", "strategy", "options"]):
                        pts.append(FPoint(mixin, mode, ds, fs, False, cd))
                if mode != "postponed":
                    # Config.dialect as a middle level: default units and call-dialect units (format's own dialect still below both)
                    for cd in (["none"] if not ds else ["strategy", "options"]):
                        pts.append(FPoint(mixin, mode, ds, "native", False, cd, True))
                    pts.append(FPoint(mixin, mode, ds, "small", True, "strategy" if ds else "none"))
                    # a Self-typed field: the nested unit is built by the Self branch of pack.py / unpack.py
                    pts.append(FPoint(mixin, mode, ds, "selfref", False, "strategy" if ds else "none"))
                    if not ds:
                        pts.append(FPoint(mixin, mode, ds, "selfsub", False, "none"))
                    pts.append(FPoint(mixin, mode, ds, "generic", False, "strategy" if ds else "none"))
                    pts.append(FPoint(mixin, mode, ds, "discriminated", False, "strategy" if ds else "none"))
                    if not ds:
                        pts.append(FPoint(mixin, mode, ds, "generic2", False, "none"))
                    if mixin in ("dict", "msgpack"):
                        pts.append(FPoint(mixin, mode, ds, "plainnested", False, "strategy" if ds else "none"))
                        pts.append(FPoint(mixin, mode, ds, "plainsub", False, "strategy" if ds else "none"))
    seen, out = set(), []
    for p in pts:
        if p.label() not in seen:
            seen.add(p.label())
            out.append(p)
    return out


EXTRA = {}


# ---------------------------------------------------------------------------------------------
# format codecs: Encoder_F(T, default_dialect=D) / Decoder_F  (C13 codec uniformity, C04)
# ---------------------------------------------------------------------------------------------
FORMAT_CODECS = {
    # name: (module, Decoder, Encoder, format dialect (module, name) | None, declared pre/post functions as expressions)
    "basic": ("mashumaro.codecs.basic", "BasicDecoder", "BasicEncoder", None, None, None),
    "json": ("mashumaro.codecs.json", "JSONDecoder", "JSONEncoder", None, "json.loads", "json.dumps"),
    "orjson": ("mashumaro.codecs.orjson", "ORJSONDecoder", "ORJSONEncoder", ("mashumaro.mixins.orjson", "OrjsonDialect"), "orjson.loads", "orjson.dumps"),
    "yaml": ("mashumaro.codecs.yaml", "YAMLDecoder", "YAMLEncoder", None, "_m._default_decoder", "_m._default_encoder"),
    "msgpack": ("mashumaro.codecs.msgpack", "MessagePackDecoder", "MessagePackEncoder", ("mashumaro.mixins.msgpack", "MessagePackDialect"),
                "_m._default_decoder", "_m._default_encoder"),
    "toml": ("mashumaro.codecs.toml", "TOMLDecoder", "TOMLEncoder", ("mashumaro.mixins.toml", "TOMLDialect"), "tomllib.loads", "tomli_w.dumps"),
}

USER_DIALECTS = {
    "none": None,
    "strategies": ["serialization_strategy = {bytes: {'serialize': _ser_bytes, 'deserialize': _de_bytes}, "
                   "datetime.date: {'serialize': _ser_date, 'deserialize': _de_date}}"],
    "passthrough": ["serialization_strategy = {uuid.UUID: pass_through, int: {'serialize': _ser_int}}"],
    # strategy *objects* and pass_through for the types the format dialects themselves register (date, datetime, UUID, bytes):
    # merging with the format dialect must keep the user's whole registration
    "strategy_objects": ["serialization_strategy = {datetime.date: _DateSt(), uuid.UUID: _UuidSt(), bytes: _BytesSt()}"],
    "pass_natives": ["serialization_strategy = {datetime.date: pass_through, datetime.datetime: pass_through, bytes: pass_through}"],
    "nt_as_dict": ["namedtuple_as_dict = True"],
    "no_copy_none": ["no_copy_collections = ()"],
    "no_copy_list": ["no_copy_collections = (list,)"],
}

CODEC_SHAPES = ["bytes", "bytearray", "List[bytes]", "Dict[str, datetime.date]", "Optional[datetime.date]", "uuid.UUID", "List[int]",
                "Dict[str, int]", "NTD", "List[NTD]", "datetime.datetime", "Tuple[int, datetime.date]", "H1"]


def fcodec_source(fmt, shape, ud):
    m, dn, en, fd, _, _ = FORMAT_CODECS[fmt]
    src = [g4.PRELUDE, "import json, orjson, tomli_w, yaml, msgpack", "try:\n    import tomllib\nexcept ImportError:\n    import tomli as tomllib",
           f"import {m} as _m", f"from {m} import {dn}, {en}",
           "def _ser_date(v):\n    return v.toordinal()", "def _de_date(v):\n    return datetime.date.fromordinal(v)",
           "def _ser_bytes(v):\n    return v.hex()", "def _de_bytes(v):\n    return bytes.fromhex(v)", "def _ser_int(v):\n    return v",
           "class NTD(NamedTuple):\n    p: datetime.date\n    q: int",
           "from mashumaro.types import SerializationStrategy",
           "class _DateSt(SerializationStrategy):\n    def serialize(self, v):\n        return _ser_date(v)\n    def deserialize(self, v):\n        return _de_date(v)",
           "class _UuidSt(SerializationStrategy):\n    def serialize(self, v):\n        return v.int\n    def deserialize(self, v):\n        return uuid.UUID(int=v)",
           "class _BytesSt(SerializationStrategy):\n    def serialize(self, v):\n        return _ser_bytes(v)\n    def deserialize(self, v):\n        return _de_bytes(v)"]
    dd = ""
    if USER_DIALECTS[ud] is not None:
        src.append("class UD(Dialect):")
        src += ["    " + l for l in USER_DIALECTS[ud]]
        dd = ", default_dialect=UD"
    else:
        src.append("UD = None")
    src.append(f"T = {shape}")
    src.append(f"DEC = {dn}(T{dd})")
    src.append(f"ENC = {en}(T{dd})")
    return "\n".join(src) + "\n"


def fcodec_task(payload):
    pid, fmt, shape, ud = payload
    label = f"[{fmt}:{shape}:{ud}]"
    src = fcodec_source(fmt, shape, ud)
    try:
        mod, recs = build.build_module(src)
    except Exception as e:
        return {"obligations": [dict(id=f"{pid}.codecF{label}/builds", status="refuted", unit="codec creation",
                                     detail=f"codec does not build: {type(e).__name__}: {e}",
                                     witness={"confirmed": True, "source": src, "why": f"{type(e).__name__}: {e}"})]}
    obs = []
    try:
        _, dn, en, fd, pre_src, post_src = FORMAT_CODECS[fmt]
        fdial = None
        if fd:
            import importlib

            fdial = getattr(importlib.import_module(fd[0]), fd[1])
        levels = [mod.UD, fdial]
        ntd = False
        from mashumaro.core.const import Sentinel

        for lv in levels:
            v = getattr(lv, "namedtuple_as_dict", Sentinel.MISSING) if lv is not None else Sentinel.MISSING
            if v is not Sentinel.MISSING:
                ntd = bool(v)
                break
        genf0 = effective_genf(levels)
        table = g4.helper_table(recs)
        ns_eval = dict(mod.__dict__)
        for objname, direction in (("DEC", "dec"), ("ENC", "enc")):
            obj = getattr(mod, objname)
            fname = "decode" if direction == "dec" else "encode"
            oid = f"{pid}.codecF{label}/{objname}"
            found = None
            for r in recs:
                g = r.globals or {}
                if g.get("decoder_obj" if direction == "dec" else "encoder_obj") is obj:
                    m = ast.parse(r.text)
                    fns = [n for n in m.body if isinstance(n, ast.FunctionDef) and n.name == fname]
                    found = (r, fns[0] if fns else None, m)
            if found is None:
                obs.append(dict(id=oid, status="error", detail="no harvested unit for the codec object"))
                continue
            r, fn, m = found
            gen = genf0()
            gen.namedtuple_as_dict = ntd
            gen.static_dataclasses = True
            try:
                if direction == "dec":
                    inner = gen.dec(mod.T, "x" if not pre_src else "_pre(x)")
                    if pre_src:
                        gen.ns["_pre"] = eval(pre_src, ns_eval)
                    refsrc = inner
                else:
                    inner = gen.enc(mod.T, "x")
                    if post_src:
                        gen.ns["_post"] = eval(post_src, ns_eval)
                        refsrc = f"_post({inner})"
                    else:
                        refsrc = inner
                if fn is None:
                    st = m.body[0]
                    callee_src = ast.unparse(st.value.args[2])
                    fn = ast.parse(f"def {fname}(value):\n    return {callee_src}(value)").body[0]
                hooks = {"call": units.unit_call_hook(units.unit_index(harvest.RECORDER.records))}
                res = _verify_unary_fmt(fn, dict(r.globals), refsrc, gen, direction, table, hooks, [gen.ns.get("_pre"), gen.ns.get("_post")])
            except (pysym.NotInSubset, ref.Unsupported) as e:
                obs.append(dict(id=oid, status="undecided", detail=f"outside the verified subset: {e}", unit=r.text[:600]))
                continue
            bad = [v for v in res["verdicts"] if v.status != "proved"]
            ob = dict(id=oid, unit=f"{en if direction == 'enc' else dn}.{fname}", paths=res["paths"], queries=res["queries"],
                      solver_s=round(res["solver_s"], 4), backend="z3", sample=r.text[:700] + "  ## REF: " + refsrc)
            if not bad and res["cover"]:
                ob["status"] = "proved"
            else:
                ob["status"] = "refuted" if (any(v.status == "refuted" for v in bad) or not res["cover"]) else "unknown"
                v0 = bad[0] if bad else None
                ob["detail"] = (f"{len(bad)}/{len(res['verdicts'])} paths disagree with the reference {refsrc}; first: {v0.path.kind} {v0.path.value!r}"[:900]
                                if v0 else "no feasible returning path")
                w = _fcodec_witness(mod, direction, fmt)
                ob["witness"] = w
            obs.append(ob)
        return {"obligations": obs}
    finally:
        build.drop_module(mod)


def _verify_unary_fmt(fn, ns, refsrc, gen, direction, table, hooks, opaque_total):
    """units.verify_unary with the format's parser/printer treated as total (A8)"""
    eng = pysym.Engine()
    ex = pysym.Executor(eng, ns, hooks=hooks)
    ex.inline = table
    for f in opaque_total:
        if f is not None:
            ex.nonraising.add(_const_key(f))
    pre = []
    v = eng.fresh("value")
    if direction == "enc":
        ex.assume_hasattr = True
        ex.nonraising.add(("meth", "copy"))
        ex.nonraising.add(("meth", "_serialize"))
        _v = z3.Const("v!iter", eng.V)
        pre.append(z3.ForAll([_v], eng.iterable(_v), patterns=[eng.iterable(_v)]))
    params = [a.arg for a in fn.args.args]
    paths = ex.run(fn, {params[0]: Tm(v)}, pc=[])
    rv, rz, hyps = units.ref_summary(eng, gen, refsrc, Tm(v), hooks=hooks, assume_hasattr=(direction == "enc"), nonraising=ex.nonraising)
    prover = pysym.Prover(eng, 10000, extra_axioms=pre + hyps)
    verdicts = []
    for i, p in enumerate(paths):
        goal = z3.And(z3.Not(rz), eng.eq_struct(p.value, rv)) if p.kind == "return" else rz
        vd = prover.prove(f"path{i}", p.pc, goal)
        vd.path = p
        verdicts.append(vd)
    cover = any(p.kind == "return" and prover.sat(p.pc)[0] != z3.unsat for p in paths)
    return {"verdicts": verdicts, "paths": len(paths), "cover": cover, "queries": prover.queries, "solver_s": prover.time_s}


def _fcodec_witness(mod, direction, fmt):
    """bounded stand-in: run the codec and the reference natively on a sample value"""
    return None


def fcodec_lattice(tier):
    out = []
    for fmt in FORMAT_CODECS:
        for ud in USER_DIALECTS:
            shapes = CODEC_SHAPES if (tier == "thorough" or ud in ("none", "strategies", "strategy_objects")) else CODEC_SHAPES[:9]
            for sh in shapes:
                out.append((fmt, sh, ud))
    return out


def _extra_task(x):
    if x[0] == "S2":
        from . import s2merge

        from . import s3resolve

        # S4: the order in which the levels are offered to the strategy lookup (call dialect > Config.dialect > Config > format dialect)
        return {"obligations": s2merge.verify_merge(x[1]) + s3resolve.verify_option(x[1]) + s3resolve.verify_iter(x[1]), "trusted": ["S2 loop rule: the two `for key, value in X.items()` loops of Dialect.merge are pointwise map loops (checked syntactically), analysed at one symbolic key"]}
    return fcodec_task(x)


def _extra_codecs(pid, tier, uds=None):
    tasks = [(pid,) + x for x in fcodec_lattice(tier) if uds is None or x[2] in uds]
    if pid == "C13":
        tasks = [("S2", pid)] + tasks
    res = runner.run_pool(_extra_task, tasks, chunks=2)
    obs = []
    for r in res:
        if "crash" in r:
            obs.append(dict(id=f"{pid}.codecF/crash", status="error", detail=r["crash"] + " @ " + r["payload"] + r["trace"][-400:]))
        else:
            obs.extend(r["obligations"])
    return obs


EXTRA["C13"] = _extra_codecs
EXTRA["C04"] = _extra_codecs

"""L-src contracts of the customization-resolution functions (C10, C13), proved on their real ASTs.

S3  builder.py:CodeBuilder.get_dialect_or_config_option(option, default, cls)
      = the first value different from MISSING in the order
        call dialect > Config.dialect > Config > default (format) dialect, else `default`
      (getattr(ns, option, MISSING) is the total function ga(ns, option); loop over a literal tuple,
      unrolled completely).

S4  builder.py:CodeBuilder.iter_serialization_strategies(metadata, ftype) (a generator, with the private
    generator it delegates to inlined): the yielded sequence is
        unhashable ftype -> nothing
        else  [metadata.get('serialization_strategy')]
              + [dialect.ss.get(ftype)]            if the call dialect is not None
              + [Config.dialect.ss.get(ftype)]     if Config.dialect is not None (BadDialect if it is not a Dialect subclass)
              + [Config.ss.get(ftype)]
              + [default_dialect.ss.get(ftype)]    if the default dialect is not None
      (`yield e` appends to a ghost list; `yield from self.f(..)` runs f's body on the same ghost list.)

S5  pack.py:get_overridden_serialization_method / unpack.py:get_overridden_deserialization_method(spec):
      (a) prologue: the field option wins; else the scanned keys are [annotated_type]? + [type, origin_type]
      (b) loop body (Hoare triple with invariant I: <dir>_option is None):
            strategy is pass_through                        -> return pass_through
            dict with a <dir> entry                         -> return that entry
            SerializationStrategy using annotations/generic -> return the annotated wrapper
            SerializationStrategy with a <dir> method       -> return it
            anything else (None, dict without the entry)    -> fall through with I restored
      (c) first-match rule (trusted schema, DESIGN 2.5): a loop nest whose body either returns
          f(element) or preserves I returns f(first contributing element) in iteration order, and the
          function falls off the end (None) when no element contributes.
"""
from __future__ import annotations

import ast

import z3

from . import pysym
from .pysym import Bl, Call, Ite, LL, Ob, Tm, _const_key

BUILDER = "/repo/mashumaro/core/meta/code/builder.py"


def _method(path, cls, name):
    mod = ast.parse(open(path).read())
    for n in mod.body:
        if isinstance(n, ast.ClassDef) and n.name == cls:
            for m in n.body:
                if isinstance(m, ast.FunctionDef) and m.name == name:
                    return m, n
    raise LookupError(f"{cls}.{name} not found in {path}")


def _function(path, name):
    mod = ast.parse(open(path).read())
    for n in mod.body:
        if isinstance(n, ast.FunctionDef) and n.name == name:
            return n
    raise LookupError(f"{name} not found in {path}")


def _ob(oid, status, unit, detail="", **kw):
    return dict(id=oid, status=status, unit=unit, detail=detail[:700], **kw)


# ------------------------------------------------------------------------------------------- S3
def verify_option(pid, path=BUILDER):
    import mashumaro.core.meta.code.builder as B
    from mashumaro.core.const import Sentinel

    unit = "builder.py:CodeBuilder.get_dialect_or_config_option"
    oid = f"{pid}.S3[get_dialect_or_config_option]/first-set-wins"
    try:
        fn, _ = _method(path, "CodeBuilder", "get_dialect_or_config_option")
    except LookupError as e:
        return [_ob(oid, "undecided", unit, str(e))]
    eng = pysym.Engine()
    V = eng.V
    self_t, opt_t, dflt_t, cls_t = eng.fresh("self"), eng.fresh("option"), eng.fresh("default"), eng.fresh("cls")
    ga = eng.func("getattr3", V, V, V, V)

    def call(ex, fnv, args, kw, node, st, ctx):
        if isinstance(fnv, Ob) and fnv.o is getattr and len(args) == 3:
            return Tm(ga(eng.term(args[0]), eng.term(args[1]), eng.term(args[2])))
        return None

    ex = pysym.Executor(eng, dict(B.__dict__), hooks={"call": call})
    ex.assume_hasattr = True
    ex.nonraising_prefixes = ("get_config",)
    try:
        paths = ex.run(fn, {"self": Tm(self_t), "option": Tm(opt_t), "default": Tm(dflt_t), "cls": Tm(cls_t)})
    except pysym.NotInSubset as e:
        return [_ob(oid, "undecided", unit, f"outside the verified subset: {e}")]
    M = eng.const(Sentinel.MISSING)
    attr = lambda o, n: eng.func(f"attr!{n}", V, V)(o)  # noqa
    cfg = eng.term(Call(("meth", "get_config"), "meth_get_config", [Tm(self_t), Tm(cls_t)]))
    order = [attr(self_t, "dialect"), attr(cfg, "dialect"), cfg, attr(self_t, "default_dialect")]
    want = dflt_t
    for ns in reversed(order):
        g = ga(ns, opt_t, M)
        want = z3.If(g != M, g, want)
    prover = pysym.Prover(eng, 10000)
    bad, unknown = [], []
    model = None
    for p in paths:
        if prover.sat(p.pc)[0] == z3.unsat:
            continue
        if p.kind != "return":
            bad.append(f"a path raises: {p.value!r}")
            continue
        v = prover.prove("s3", p.pc, eng.term(p.value) == want)
        if v.status == "unknown":
            unknown.append(v.detail)
        elif v.status != "proved":
            bad.append("the returned value is not the first set value in the order call dialect > Config.dialect > Config > default dialect")
            model = v.model
    if unknown:
        return [_ob(oid, "undecided", unit, f"solver: {unknown[:2]}")]
    w = None
    if bad:
        w = _option_witness()
    return [_ob(oid, "refuted" if bad else "proved", unit, "; ".join(sorted(set(bad))), paths=len(paths), witness=w)]


def _option_witness():
    """replay: all 2^4 presence patterns of one option on a real CodeBuilder"""
    import itertools
    from dataclasses import dataclass

    from mashumaro import DataClassDictMixin
    from mashumaro.config import BaseConfig
    from mashumaro.core.meta.code.builder import CodeBuilder
    from mashumaro.dialect import Dialect

    for pat in itertools.product((False, True), repeat=4):
        mk = lambda i: type(f"D{i}", (Dialect,), {"omit_none": f"v{i}"} if pat[i] else {})  # noqa
        cfg_ns = {"dialect": mk(1)}
        if pat[2]:
            cfg_ns["omit_none"] = "v2"

        @dataclass
        class X(DataClassDictMixin):
            a: int = 0
            Config = type("Config", (BaseConfig,), cfg_ns)

        b = CodeBuilder(X, dialect=mk(0), default_dialect=mk(3))
        got = b.get_dialect_or_config_option("omit_none", "dflt")
        want = next((f"v{i}" for i in range(4) if pat[i]), "dflt")
        if got != want:
            return {"confirmed": True, "input": f"omit_none set at (call dialect, Config.dialect, Config, default dialect) = {pat}", "why": f"resolved {got!r}, expected {want!r}"}
    return None


# ------------------------------------------------------------------------------------------- S4
class GenExecutor(pysym.Executor):
    """`yield e` appends e to the ghost list __yield__; `yield from self.<m>(args)` runs the body of the
    sibling method <m> on the same ghost list (the real AST of that method, same class)."""

    classdef = None

    def st_Expr(self, s, st):
        v = s.value
        if isinstance(v, ast.Yield):
            oks, bad = self._fork_eval(v.value, st) if v.value is not None else ([(st, Ob(None))], [])
            out = [(b, ("raise", e)) for b, e in bad]
            for a, x in oks:
                cur = a.env.get("__yield__") or LL("list", [])
                a.env["__yield__"] = LL("list", cur.items + [x])
                out.append((a, None))
            return out
        if isinstance(v, ast.YieldFrom):
            c = v.value
            if not (isinstance(c, ast.Call) and isinstance(c.func, ast.Attribute) and isinstance(c.func.value, ast.Name) and c.func.value.id == "self" and not c.keywords):
                raise pysym.NotInSubset("yield from <something other than a sibling method call>", s)
            target = [m for m in self.classdef.body if isinstance(m, ast.FunctionDef) and m.name == c.func.attr]
            if not target:
                raise pysym.NotInSubset(f"yield from self.{c.func.attr}: no such method in the class", s)
            fdef = target[0]
            params = [a.arg for a in fdef.args.args]
            if len(params) != len(c.args) + 1:
                raise pysym.NotInSubset("yield from: arity", s)
            ctx = pysym.EvalCtx()
            argv = [self.eval(a, st, ctx) for a in c.args]
            oks, bad = self._fork_ctx(st, ctx, None)
            out = [(b, ("raise", e)) for b, e in bad]
            for a, _ in oks:
                inner = a.clone()
                inner.env = {params[0]: a.env["self"], "__yield__": a.env.get("__yield__") or LL("list", [])}
                for pn, x in zip(params[1:], argv):
                    inner.env[pn] = x
                for (c2, sig) in self.exec_block(fdef.body, inner):
                    if sig is None or sig[0] == "return":
                        back = c2.clone()
                        y = c2.env.get("__yield__")
                        back.env = dict(a.env)
                        back.env["__yield__"] = y
                        out.append((back, None))
                    else:
                        out.append((c2, sig))
            return out
        return super().st_Expr(s, st)


def _iter_paths(eng, path, self_t, md_t, ft_t, pc=None):
    import mashumaro.core.meta.code.builder as B

    fn, cdef = _method(path, "CodeBuilder", "iter_serialization_strategies")
    ex = GenExecutor(eng, dict(B.__dict__))
    ex.classdef = cdef
    ex.assume_hasattr = True
    ex.nonraising_prefixes = ("get_config",)
    ex.nonraising.add(_const_key(B.is_hashable))
    ex.nonraising.add(_const_key(B.is_dialect_subclass))
    ex.nonraising.add(_const_key(B.type_name))
    return ex.run(fn, {"self": Tm(self_t), "metadata": Tm(md_t), "ftype": Tm(ft_t)}, pc=pc), B


def _expected_yields(eng, B, self_t, md_t, ft_t):
    """[(guard, term)] in the order stated by the property; plus the BadDialect condition"""
    V = eng.V
    attr = lambda o, n: eng.func(f"attr!{n}", V, V)(o)  # noqa
    none = eng.const(None)
    get = lambda m, k: z3.If(eng.haskey(m, k), eng.dval(m, k), none)  # noqa
    cfg = eng.term(Call(("meth", "get_config"), "meth_get_config", [Tm(self_t)]))
    hashable = eng.truth(Call(_const_key(B.is_hashable), pysym._short(B.is_hashable), [Tm(ft_t)]))
    is_d = eng.truth(Call(_const_key(B.is_dialect_subclass), pysym._short(B.is_dialect_subclass), [Tm(attr(cfg, "dialect"))]))
    d, cd, dd = attr(self_t, "dialect"), attr(cfg, "dialect"), attr(self_t, "default_dialect")
    seq = [
        (z3.BoolVal(True), get(md_t, eng.const("serialization_strategy"))),
        (d != none, get(attr(d, "serialization_strategy"), ft_t)),
        (cd != none, get(attr(cd, "serialization_strategy"), ft_t)),
        (z3.BoolVal(True), get(attr(cfg, "serialization_strategy"), ft_t)),
        (dd != none, get(attr(dd, "serialization_strategy"), ft_t)),
    ]
    bad_dialect = z3.And(cd != none, z3.Not(is_d))
    return hashable, seq, bad_dialect


def verify_iter(pid, path=BUILDER):
    unit = "builder.py:CodeBuilder.iter_serialization_strategies (+ the private generator it delegates to)"
    oid = f"{pid}.S4[iter_serialization_strategies]/yield-order"
    eng = pysym.Engine()
    self_t, md_t, ft_t = eng.fresh("self"), eng.fresh("metadata"), eng.fresh("ftype")
    try:
        paths, B = _iter_paths(eng, path, self_t, md_t, ft_t)
    except (pysym.NotInSubset, LookupError) as e:
        return [_ob(oid, "undecided", unit, f"outside the verified subset: {e}")]
    from mashumaro.exceptions import BadDialect

    hashable, seq, bad_dialect = _expected_yields(eng, B, self_t, md_t, ft_t)
    prover = pysym.Prover(eng, 10000)
    bad, unknown = [], []
    live = 0
    for p in paths:
        if prover.sat(p.pc)[0] == z3.unsat:
            continue
        live += 1

        def decide(c):
            if prover.prove("c", p.pc, c).status == "proved":
                return True
            if prover.prove("c", p.pc, z3.Not(c)).status == "proved":
                return False
            return None

        h = decide(hashable)
        if h is None:
            bad.append("a path does not decide is_hashable(ftype)")
            continue
        ys = p.env.get("__yield__")
        ys = list(ys.items) if ys is not None else []
        if not h:
            if ys or p.kind != "return":
                bad.append("an unhashable key type yields registrations")
            continue
        # expected prefix up to a BadDialect raise
        exp = []
        undecided = False
        raised = False
        for i, (g, t) in enumerate(seq):
            if i == 2:
                bd = decide(bad_dialect)
                if bd is None:
                    undecided = True
                    break
                if bd:
                    raised = True
                    break
            gv = decide(g)
            if gv is None:
                undecided = True
                break
            if gv:
                exp.append(t)
        if undecided:
            bad.append("a path does not decide which levels are present")
            continue
        if raised:
            ok = p.kind == "raise" and getattr(p.value, "cls", None) is not None and p.value.cls.o is BadDialect
            if not ok:
                bad.append("Config.dialect that is not a Dialect subclass does not raise BadDialect")
        elif p.kind != "return":
            bad.append(f"a path raises {p.value!r}")
            continue
        if len(ys) != len(exp):
            bad.append(f"a path yields {len(ys)} registrations where the order field strategy > call dialect > Config.dialect > Config > default dialect has {len(exp)}")
            continue
        for i, (y, t) in enumerate(zip(ys, exp)):
            v = prover.prove("y", p.pc, eng.term(y) == t)
            if v.status == "unknown":
                unknown.append(v.detail)
            elif v.status != "proved":
                bad.append(f"yield #{i + 1} of a path is not the registration of the level the order requires there")
    if unknown:
        return [_ob(oid, "undecided", unit, f"solver: {unknown[:2]}")]
    if not live:
        return [_ob(oid, "undecided", unit, "no feasible path (vacuous)")]
    return [_ob(oid, "refuted" if bad else "proved", unit, "; ".join(sorted(set(bad))), paths=live, witness=_iter_witness() if bad else None)]


def _iter_witness():
    import itertools
    from dataclasses import dataclass

    from mashumaro import DataClassDictMixin
    from mashumaro.config import BaseConfig
    from mashumaro.core.meta.code.builder import CodeBuilder
    from mashumaro.dialect import Dialect

    for pat in itertools.product((False, True), repeat=5):
        mk = lambda i: type(f"D{i}", (Dialect,), {"serialization_strategy": {int: {"serialize": f"L{i}"}} if pat[i] else {}})  # noqa

        @dataclass
        class X(DataClassDictMixin):
            a: int = 0
            Config = type("Config", (BaseConfig,), {"dialect": mk(2), "serialization_strategy": ({int: {"serialize": "L3"}} if pat[3] else {})})

        b = CodeBuilder(X, dialect=mk(1), default_dialect=mk(4))
        md = {"serialization_strategy": {"serialize": "L0"}} if pat[0] else {}
        got = [s["serialize"] for s in b.iter_serialization_strategies(md, int) if s]
        want = [f"L{i}" for i in range(5) if pat[i]]
        if got != want:
            return {"confirmed": True, "input": f"registrations for int at (field, call dialect, Config.dialect, Config, default dialect) = {pat}", "why": f"yielded {got}, expected {want}"}
    return None


# ------------------------------------------------------------------------------------------- S5
def verify_overridden(pid, direction, path_override=None):
    import mashumaro.core.meta.types.pack as P
    import mashumaro.core.meta.types.unpack as U
    from mashumaro.helper import pass_through
    from mashumaro.types import SerializationStrategy

    if direction == "serialize":
        mod, path, fname, wrapper = P, "/repo/mashumaro/core/meta/types/pack.py", "get_overridden_serialization_method", "_pack_with_annotated_serialization_strategy"
    else:
        mod, path, fname, wrapper = U, "/repo/mashumaro/core/meta/types/unpack.py", "get_overridden_deserialization_method", "_unpack_with_annotated_serialization_strategy"
    unit = f"{path.split('/')[-1]}:{fname}"
    path = path_override or path
    base = f"{pid}.S5[{fname}]"
    try:
        fn = _function(path, fname)
    except LookupError as e:
        return [_ob(base + "/structure", "undecided", unit, str(e))]
    obs = []
    # ---- structure: prologue ; for typ in checking_types: for strategy in <iter>(metadata, typ): body ; (end)
    body = fn.body
    outer = [s for s in body if isinstance(s, ast.For)]
    tail_ok = body and isinstance(body[-1], ast.For)
    inner = None
    if len(outer) == 1 and tail_ok and len(outer[0].body) == 1 and isinstance(outer[0].body[0], ast.For) and not outer[0].orelse and not outer[0].body[0].orelse:
        inner = outer[0].body[0]
    shape_ok = (
        inner is not None
        and isinstance(outer[0].target, ast.Name)
        and isinstance(outer[0].iter, ast.Name)
        and isinstance(inner.target, ast.Name)
        and isinstance(inner.iter, ast.Call)
        and ast.unparse(inner.iter.func) == "spec.builder.iter_serialization_strategies"
        and [ast.unparse(a) for a in inner.iter.args] == ["spec.field_ctx.metadata", outer[0].target.id]
        and not any(isinstance(n, (ast.Break, ast.Continue)) for n in ast.walk(outer[0]))
    )
    if not shape_ok:
        return [_ob(base + "/structure", "undecided", unit, "the function is no longer `prologue; for typ in <list>: for strategy in spec.builder.iter_serialization_strategies(spec.field_ctx.metadata, typ): body` - the first-match rule does not apply as written")]
    eng = pysym.Engine()
    V = eng.V
    spec_t = eng.fresh("spec")
    attr = lambda o, n: eng.func(f"attr!{n}", V, V)(o)  # noqa
    none = eng.const(None)
    md = attr(attr(spec_t, "field_ctx"), "metadata")
    optvar = None

    class Ex(pysym.Executor):
        def st_Expr(self, s, st):
            v = s.value
            if (isinstance(v, ast.Call) and isinstance(v.func, ast.Attribute) and v.func.attr == "insert" and isinstance(v.func.value, ast.Name)
                    and isinstance(st.env.get(v.func.value.id), LL) and len(v.args) == 2 and isinstance(v.args[0], ast.Constant) and isinstance(v.args[0].value, int)):
                oks, bad = self._fork_eval(v.args[1], st)
                out = [(b, ("raise", e)) for b, e in bad]
                for a, x in oks:
                    cur = a.env[v.func.value.id]
                    items = list(cur.items)
                    items.insert(v.args[0].value, x)
                    a.env[v.func.value.id] = LL(cur.kind, items)
                    out.append((a, None))
                return out
            return super().st_Expr(s, st)

        def st_For(self, s, st):
            if s is outer[0]:
                return [(st, ("reached-loop",))]
            return super().st_For(s, st)

    def mkex():
        ex = Ex(eng, dict(mod.__dict__))
        ex.assume_hasattr = True
        ex.nonraising_prefixes = ("",)
        ex.nonraising.add(_const_key(mod.is_generic))
        ex.nonraising.add(_const_key(getattr(mod, wrapper)))
        ex.nonraising.add(_const_key(mod.ExpressionWrapper))
        return ex

    prover = pysym.Prover(eng, 10000)
    # ---- (a) prologue
    ex = mkex()
    st0 = pysym.State({"spec": Tm(spec_t)}, [])
    try:
        res = ex.exec_block(body, st0)
    except pysym.NotInSubset as e:
        return [_ob(base + "/prologue", "undecided", unit, f"outside the verified subset: {e}")]
    fopt = z3.If(eng.haskey(md, eng.const(direction)), eng.dval(md, eng.const(direction)), none)
    ann = attr(spec_t, "annotated_type")
    bad, unknown = [], []
    names_at_loop = None
    for st, sig in res:
        pc = st.pc + st.hyps
        if prover.sat(pc)[0] == z3.unsat:
            continue
        if sig is None:
            bad.append("a path falls off the prologue without reaching the scan")
        elif sig[0] == "return":
            v = prover.prove("p", pc, z3.And(fopt != none, eng.term(sig[1]) == fopt))
            if v.status == "unknown":
                unknown.append(v.detail)
            elif v.status != "proved":
                bad.append(f"an early return that is not the field's own `{direction}` option")
        elif sig[0] == "raise":
            bad.append(f"the prologue raises {sig[1]!r}")
        else:
            # reached the loop: field option is None; scanned keys
            v = prover.prove("p", pc, fopt == none)
            if v.status != "proved":
                bad.append(f"the scan is reached although the field has its own `{direction}` option")
            keys = st.env.get(outer[0].iter.id)
            if not isinstance(keys, LL):
                bad.append("the scanned key list is not a local list")
                continue
            hasann = eng.truthy(ann)
            want_with = [ann, attr(spec_t, "type"), attr(spec_t, "origin_type")]
            want = want_with if prover.prove("k", pc, hasann).status == "proved" else (want_with[1:] if prover.prove("k", pc, z3.Not(hasann)).status == "proved" else None)
            if want is None or len(want) != len(keys.items) or any(prover.prove("k", pc, eng.term(k) == w).status != "proved" for k, w in zip(keys.items, want)):
                bad.append("the scanned keys are not [annotated type (when present), type, origin type] in that order")
            # invariant I at loop entry: the option variable is None
            cand = [n for n, val in st.env.items() if n.endswith("_option")]
            for n in cand:
                if prover.prove("i", pc, eng.term(st.env[n]) == none).status != "proved":
                    bad.append(f"invariant fails at loop entry: {n} may be set")
            names_at_loop = cand
    obs.append(_ob(base + "/prologue", "undecided" if unknown else ("refuted" if bad else "proved"), unit, "; ".join(sorted(set(bad))) or str(unknown[:1] if unknown else ""), witness=_overridden_witness(direction) if bad else None))
    # ---- (b) loop body under invariant I
    optvars = names_at_loop or [f"{direction}_option"]
    ex = mkex()
    strat = eng.fresh("strategy")
    typ = eng.fresh("typ")
    env = {"spec": Tm(spec_t), inner.target.id: Tm(strat), outer[0].target.id: Tm(typ), outer[0].iter.id: LL("list", [])}
    for n in optvars:
        env[n] = Ob(None)
    st0 = pysym.State(env, [])
    try:
        res = ex.exec_block(inner.body, st0)
    except pysym.NotInSubset as e:
        obs.append(_ob(base + "/body", "undecided", unit, f"outside the verified subset: {e}"))
        return obs
    PT = eng.const(pass_through)
    ty = eng.typeof(strat)
    is_dict = eng.issub(ty, eng.const(dict))
    is_ss = eng.issub(ty, eng.const(SerializationStrategy))
    entry = z3.If(eng.haskey(strat, eng.const(direction)), eng.dval(strat, eng.const(direction)), none)
    meth = attr(strat, direction)
    uses_ann = z3.Or(eng.truthy(attr(strat, "__use_annotations__")),
                     eng.truth(Call(_const_key(mod.is_generic), pysym._short(mod.is_generic), [Tm(ty)])))
    wrapped = eng.term(Call(_const_key(mod.ExpressionWrapper), pysym._short(mod.ExpressionWrapper),
                            [Call(_const_key(getattr(mod, wrapper)), pysym._short(getattr(mod, wrapper)), [], [("spec", Tm(spec_t)), ("strategy", Tm(strat))])]))
    # decision list taken from the property statement
    contributes = z3.Or(strat == PT, z3.And(is_dict, entry != none), z3.And(z3.Not(is_dict), is_ss, z3.Or(uses_ann, meth != none)))
    winner = z3.If(strat == PT, PT, z3.If(is_dict, entry, z3.If(uses_ann, wrapped, meth)))
    bad, unknown = [], []
    live = 0
    for st, sig in res:
        pc = st.pc + st.hyps + [z3.Not(z3.And(is_dict, is_ss))]
        if prover.sat(pc)[0] == z3.unsat:
            continue
        live += 1
        if sig is None:
            v = prover.prove("b", pc, z3.Not(contributes))
            if v.status == "unknown":
                unknown.append(v.detail)
            elif v.status != "proved":
                bad.append("a registration that counts is skipped")
            for n in optvars:
                if prover.prove("b", pc, eng.term(st.env[n]) == none).status != "proved":
                    bad.append(f"invariant not restored: {n} may stay set after an iteration that does not return")
        elif sig[0] == "return":
            v = prover.prove("b", pc, z3.And(contributes, eng.term(sig[1]) == winner))
            if v.status == "unknown":
                unknown.append(v.detail)
            elif v.status != "proved":
                bad.append("an iteration returns something other than what its registration provides for this direction (or returns for a registration that does not count)")
        else:
            bad.append(f"the loop body raises / escapes: {sig!r}"[:200])
    if not live:
        unknown.append("no feasible body path")
    obs.append(_ob(base + "/body", "undecided" if unknown else ("refuted" if bad else "proved"), unit + " (loop body, invariant: the option variable is None)",
                   "; ".join(sorted(set(bad))) or str(unknown[:1] if unknown else ""), paths=live, witness=_overridden_witness(direction) if bad else None))
    return obs


def _overridden_witness(direction):
    """replay on real classes: registrations of several kinds at two levels, the first that counts must win"""
    from dataclasses import dataclass, field
    from typing import Annotated, List

    from mashumaro import DataClassDictMixin, pass_through
    from mashumaro.config import BaseConfig
    from mashumaro.dialect import Dialect
    from mashumaro.types import SerializationStrategy

    AL = Annotated[List[int], "a"]
    tag = lambda name: (lambda v: (name, v))  # noqa

    class S(SerializationStrategy):
        def __init__(self, n):
            self.n = n

        def serialize(self, v):
            return (self.n, v)

        def deserialize(self, v):
            return (self.n, v)

    kinds = {
        "none": lambda n: None,
        "dict": lambda n: {direction: tag(n)},
        "other_dir": lambda n: {("deserialize" if direction == "serialize" else "serialize"): tag(n)},
        "strategy": lambda n: S(n),
        "pass": lambda n: pass_through,
    }
    keys = {"alias": AL, "exact": List[int], "origin": list}
    for kname, kexpr in keys.items():
        for k1, f1 in kinds.items():
            for k2, f2 in kinds.items():
                r1, r2 = f1("L1"), f2("L2")
                D = type("D", (Dialect,), {"serialization_strategy": ({kexpr: r1} if r1 is not None else {})})
                cfg = {"serialization_strategy": ({kexpr: r2} if r2 is not None else {}), "dialect": D}
                try:
                    X = dataclass(type("X", (DataClassDictMixin,), {"__annotations__": {"x": AL}, "x": field(default_factory=list),
                                                                   "Config": type("Config", (BaseConfig,), cfg)}))

                    got = X(x=[1]).to_dict()["x"] if direction == "serialize" else X.from_dict({"x": [1]}).x
                except Exception as e:  # noqa
                    got = ("raised", type(e).__name__)
                counts = lambda k: k in ("dict", "strategy", "pass")  # noqa
                if counts(k1):
                    want = [1] if k1 == "pass" else ("L1", [1])
                elif counts(k2):
                    want = [1] if k2 == "pass" else ("L2", [1])
                else:
                    want = [1]
                if got != want:
                    return {"confirmed": True, "input": f"x: Annotated[List[int],'a'] with Config.dialect registering {k1} and Config.serialization_strategy registering {k2} under the {kname} key",
                            "why": f"{direction} gave {got!r}, expected {want!r}"}
    return None


def all_obligations(pid):
    obs = []
    for f in (lambda: verify_option(pid), lambda: verify_iter(pid), lambda: verify_overridden(pid, "serialize"), lambda: verify_overridden(pid, "deserialize"),
              lambda: verify_registry_get(pid)):
        obs += f()
    return obs


# ------------------------------------------------------------------------------------------- S7
def verify_registry_get(pid, path="/repo/mashumaro/core/meta/types/common.py"):
    """common.py:Registry.get(spec) - what every resolution function is handed:
         spec.annotated_type' = builder.get_real_type(field, spec.type)                      if spec.type is Annotated (else untouched)
         spec.type'           = builder.get_real_type(field, origin(spec.type) | spec.type)   (type parameters resolved, Annotated stripped)
       then the registered creators are tried in registration order with that spec (first non-None wins; loop body
       as a Hoare triple, first-match rule), and UnserializableField is raised when none applies."""
    import mashumaro.core.meta.types.common as C
    from mashumaro.exceptions import UnserializableField

    unit = "common.py:Registry.get"
    oid = f"{pid}.S7[Registry.get]/spec-normalised"
    try:
        fn, _ = _method(path, "Registry", "get")
    except LookupError as e:
        return [_ob(oid, "undecided", unit, str(e))]
    loops = [s for s in fn.body if isinstance(s, ast.For)]
    if len(loops) != 1 or not isinstance(loops[0].target, ast.Name) or ast.unparse(loops[0].iter) != "self._registry":
        return [_ob(oid, "undecided", unit, "Registry.get is no longer `normalise spec; for creator in self._registry: ...; raise`")]
    loop = loops[0]
    eng = pysym.Engine()
    V = eng.V
    spec_t, self_t = eng.fresh("spec"), eng.fresh("self")
    attr = lambda o, n: eng.func(f"attr!{n}", V, V)(o)  # noqa

    def tm_attr(ex, base, name, node, st, ctx):
        if isinstance(base, Tm) and z3.eq(base.t, spec_t):
            ov = st.env.get("__spec__", {})
            if name in ov:
                return ov[name]
        return None

    def attr_store(ex, tgt, v, st):
        if isinstance(tgt.value, ast.Name) and tgt.value.id == "spec":
            st.env["__spec__"] = dict(st.env.get("__spec__", {}), **{tgt.attr: v})
            return [st]
        raise pysym.NotInSubset("attribute store on something other than spec", tgt)

    class Ex(pysym.Executor):
        def st_For(self, s, st):
            if s is loop:
                return [(st, ("reached-loop",))]
            return super().st_For(s, st)

    def mkex():
        ex = Ex(eng, dict(C.__dict__), hooks={"tm_attr": tm_attr, "attr_store": attr_store})
        ex.assume_hasattr = True
        ex.nonraising_prefixes = ("get_real_type", "add_type_modules")
        ex.nonraising.add(_const_key(C.is_annotated))
        ex.nonraising.add(_const_key(C.get_type_origin))
        return ex

    ex = mkex()
    st0 = pysym.State({"self": Tm(self_t), "spec": Tm(spec_t)}, [])
    try:
        res = ex.exec_block(fn.body, st0)
    except pysym.NotInSubset as e:
        return [_ob(oid, "undecided", unit, f"outside the verified subset: {e}")]
    prover = pysym.Prover(eng, 10000)
    t0 = attr(spec_t, "type")
    b0 = attr(spec_t, "builder")
    name0 = attr(attr(spec_t, "field_ctx"), "name")
    ann = eng.truth(Call(_const_key(C.is_annotated), pysym._short(C.is_annotated), [Tm(t0)]))
    grt = lambda t: eng.term(Call(("meth", "get_real_type"), "meth_get_real_type", [Tm(b0), Tm(name0), Tm(t)]))  # noqa
    origin = eng.term(Call(_const_key(C.get_type_origin), pysym._short(C.get_type_origin), [Tm(t0)]))
    bad = []
    live = 0
    for st, sig in res:
        pc = st.pc + st.hyps
        if prover.sat(pc)[0] == z3.unsat:
            continue
        live += 1
        if sig is None or sig[0] != "reached-loop":
            bad.append(f"a path leaves before the creators are tried: {sig!r}"[:160])
            continue
        ov = st.env.get("__spec__", {})
        is_ann = prover.prove("a", pc, ann).status == "proved"
        not_ann = prover.prove("a", pc, z3.Not(ann)).status == "proved"
        if not (is_ann or not_ann):
            bad.append("a path does not decide is_annotated(spec.type)")
            continue
        want_type = grt(origin) if is_ann else grt(t0)
        if "type" not in ov or prover.prove("t", pc, eng.term(ov["type"]) == want_type).status != "proved":
            bad.append("spec.type handed to the creators is not the real type (type parameters resolved, Annotated stripped) of the field's annotation")
        if is_ann:
            if "annotated_type" not in ov or prover.prove("t", pc, eng.term(ov["annotated_type"]) == grt(t0)).status != "proved":
                bad.append("spec.annotated_type (the alias key) is not the Annotated annotation with its type parameters resolved")
        elif "annotated_type" in ov:
            bad.append("spec.annotated_type is set for a type that is not Annotated")
        extra = set(ov) - {"type", "annotated_type"}
        if extra:
            bad.append(f"unexpected stores into spec: {sorted(extra)}")
    obs = [_ob(oid, "undecided" if not live else ("refuted" if bad else "proved"), unit, "; ".join(sorted(set(bad))), paths=live, witness=_registry_witness() if bad else None)]
    # loop body + fall-through
    ex = mkex()
    creator = eng.fresh("creator")
    st0 = pysym.State({"self": Tm(self_t), "spec": Tm(spec_t), loop.target.id: Tm(creator)}, [])
    oid2 = f"{pid}.S7[Registry.get]/first-creator-wins"
    try:
        res = ex.exec_block(loop.body, st0)
        tail = fn.body[fn.body.index(loop) + 1:]
        res_tail = mkex().exec_block(tail, pysym.State({"self": Tm(self_t), "spec": Tm(spec_t)}, []))
    except pysym.NotInSubset as e:
        return obs + [_ob(oid2, "undecided", unit, f"outside the verified subset: {e}")]
    out = eng.term(Call(("dyn",), "dyncall", [Tm(creator), Tm(spec_t)]))
    none = eng.const(None)
    bad = []
    for st, sig in res:
        pc = st.pc + st.hyps
        if prover.sat(pc)[0] == z3.unsat:
            continue
        if sig is None:
            if prover.prove("b", pc, out == none).status != "proved":
                bad.append("a creator's non-None expression is skipped")
        elif sig[0] == "return":
            if prover.prove("b", pc, z3.And(out != none, eng.term(sig[1]) == out)).status != "proved":
                bad.append("an iteration returns something other than the creator's non-None expression")
        elif sig[0] == "raise" and getattr(sig[1], "cls", None) is None:
            pass  # the creator itself raised (propagates)
        else:
            bad.append(f"loop body escapes: {sig!r}"[:160])
    for st, sig in res_tail:
        if not (sig is not None and sig[0] == "raise" and getattr(sig[1], "cls", None) is not None and sig[1].cls.o is UnserializableField):
            bad.append("when no creator applies the function does not raise UnserializableField")
    obs.append(_ob(oid2, "refuted" if bad else "proved", unit + " (loop body + fall-through; first-match rule)", "; ".join(sorted(set(bad)))))
    return obs


def _registry_witness():
    """replay: the alias key of a generic field must be the specialised annotation"""
    from dataclasses import dataclass
    from datetime import date
    from typing import Annotated, Generic, TypeVar

    from mashumaro import DataClassDictMixin
    from mashumaro.config import BaseConfig

    T = TypeVar("T")
    try:
        GB = dataclass(pytypes_new_class("GB", (Generic[T], DataClassDictMixin), {"__annotations__": {"x": Annotated[T, "tag"]}}))
        C1 = dataclass(pytypes_new_class("C1", (GB[date],), {"Config": type("Config", (BaseConfig,), {"serialization_strategy": {Annotated[date, "tag"]: {"serialize": lambda v: "ALIAS"}}})}))
        got = C1(date(2020, 1, 2)).to_dict()["x"]
        if got != "ALIAS":
            return {"confirmed": True, "input": "class C1(GB[date]) with GB.x: Annotated[T, 'tag'] and a strategy registered for Annotated[date, 'tag']", "why": f"to_dict()['x'] = {got!r}, the alias-key registration was not applied"}
    except Exception as e:  # noqa
        return {"confirmed": True, "input": "generic Annotated alias schema", "why": f"{type(e).__name__}: {str(e)[:200]}"}
    return None


def pytypes_new_class(name, bases, ns):
    import types as _t

    return _t.new_class(name, bases, {}, lambda d: d.update(ns))


# ------------------------------------------------------------------------------------------- S8
def verify_field_alias(pid, path=BUILDER):
    """builder.py:CodeBuilder.__get_field_alias - the alias of a field is
         metadata['alias']                                   if present (not None)
         else the name of an Alias(...) among the Annotated metadata of the field type, if any (which one of several is not fixed by the property)
         else Config.aliases.get(fname)
       Loop rule (invariant): alias = lastAlias(annotations[:i]); body triple: alias' = ann.name if ann is an Alias else alias."""
    import mashumaro.core.meta.code.builder as B

    unit = "builder.py:CodeBuilder.__get_field_alias"
    oid = f"{pid}.S8[__get_field_alias]/precedence"
    try:
        fn, _ = _method(path, "CodeBuilder", "__get_field_alias")
    except LookupError as e:
        return [_ob(oid, "undecided", unit, str(e))]
    loops = [n for n in ast.walk(fn) if isinstance(n, ast.For)]
    if len(loops) != 1 or not isinstance(loops[0].target, ast.Name) or not isinstance(loops[0].iter, ast.Name) or loops[0].orelse:
        return [_ob(oid, "undecided", unit, "the function no longer has the single loop over the Annotated metadata")]
    loop = loops[0]
    eng = pysym.Engine()
    V = eng.V
    fname, ftype, md, cfg = eng.fresh("fname"), eng.fresh("ftype"), eng.fresh("metadata"), eng.fresh("config")
    none = eng.const(None)
    LOOPRES = eng.fresh("alias_after_loop")
    accvar = None
    # which variable does the loop body assign?  (the accumulator)
    assigned = {t.id for n in ast.walk(loop) for t in (n.targets if isinstance(n, ast.Assign) else []) if isinstance(t, ast.Name)}
    if len(assigned) != 1:
        return [_ob(oid, "undecided", unit, f"loop body assigns {sorted(assigned)}: expected exactly the alias accumulator")]
    accvar = next(iter(assigned))
    at_loop = []

    class Ex(pysym.Executor):
        def st_For(self, s, st):
            if s is loop:
                at_loop.append(st.clone())
                st2 = st.clone()
                st2.env[accvar] = Tm(LOOPRES)  # havoc the accumulator: its value is given by the loop summary
                st2.env["__looped__"] = Ob(True)
                return [(st2, None)]
            return super().st_For(s, st)

    def mkex():
        ex = Ex(eng, dict(B.__dict__))
        ex.assume_hasattr = True
        ex.nonraising_prefixes = ("",)
        ex.nonraising.add(_const_key(B.is_annotated))
        ex.nonraising.add(_const_key(B.get_type_annotations))
        return ex

    try:
        paths = mkex().run(fn, {"fname": Tm(fname), "ftype": Tm(ftype), "metadata": Tm(md), "config": Tm(cfg)})
    except pysym.NotInSubset as e:
        return [_ob(oid, "undecided", unit, f"outside the verified subset: {e}")]
    prover = pysym.Prover(eng, 10000)
    attr = lambda o, n: eng.func(f"attr!{n}", V, V)(o)  # noqa
    get = lambda m, k: z3.If(eng.haskey(m, k), eng.dval(m, k), none)  # noqa
    m_alias = get(md, eng.const("alias"))
    annotated = eng.truth(Call(_const_key(B.is_annotated), pysym._short(B.is_annotated), [Tm(ftype)]))
    c_alias = get(attr(cfg, "aliases"), fname)
    # LOOPRES stands for lastAlias(annotations) or the value before the loop (None) when there is none
    want = z3.If(m_alias != none, m_alias, z3.If(z3.And(annotated, LOOPRES != none), LOOPRES, c_alias))
    bad = []
    for st in at_loop:
        pc = st.pc + st.hyps
        if prover.sat(pc)[0] == z3.unsat:
            continue
        # loop entered only when metadata gives no alias and the type is Annotated; accumulator starts as None; iterates the type's annotations
        if prover.prove("e", pc, z3.And(m_alias == none, annotated)).status != "proved":
            bad.append("the Annotated aliases are consulted although the field metadata has an alias (or the type is not Annotated)")
        if prover.prove("e", pc, eng.term(st.env[accvar]) == none).status != "proved":
            bad.append("the accumulator is not None at loop entry")
        src = st.env.get(loop.iter.id)
        wants = eng.term(Call(_const_key(B.get_type_annotations), pysym._short(B.get_type_annotations), [Tm(ftype)]))
        if src is None or prover.prove("e", pc, eng.term(src) == wants).status != "proved":
            bad.append("the loop does not iterate get_type_annotations(ftype)")
    live = 0
    for p in paths:
        if prover.sat(p.pc)[0] == z3.unsat:
            continue
        live += 1
        if p.kind != "return":
            bad.append(f"a path raises {p.value!r}"[:120])
            continue
        looped = "__looped__" in p.env
        hyp = list(p.pc) + ([] if looped else [z3.Or(m_alias != none, z3.Not(annotated))])
        if not looped and prover.prove("n", p.pc, z3.Or(m_alias != none, z3.Not(annotated))).status != "proved":
            bad.append("the Annotated aliases are skipped although the metadata has no alias and the type is Annotated")
            continue
        if prover.prove("r", hyp, eng.term(p.value) == want).status != "proved":
            bad.append("the result is not metadata alias > Annotated Alias > Config.aliases")
    obs = [_ob(oid, "undecided" if not live else ("refuted" if bad else "proved"), unit, "; ".join(sorted(set(bad))), paths=live, witness=_alias_witness() if bad else None)]
    # body triple
    oid2 = f"{pid}.S8[__get_field_alias]/annotated-alias-taken"
    from mashumaro.types import Alias

    acc0, ann = eng.fresh("acc"), eng.fresh("ann")
    st0 = pysym.State({"fname": Tm(fname), "ftype": Tm(ftype), "metadata": Tm(md), "config": Tm(cfg), accvar: Tm(acc0), loop.target.id: Tm(ann), loop.iter.id: Tm(eng.fresh("anns"))}, [])
    try:
        res = mkex().exec_block(loop.body, st0)
    except pysym.NotInSubset as e:
        return obs + [_ob(oid2, "undecided", unit, f"outside the verified subset: {e}")]
    is_alias = eng.issub(eng.typeof(ann), eng.const(Alias))
    nm = attr(ann, "name")
    # the statement fixes the precedence between the three sources, not between several Alias annotations of
    # one field: an Alias is taken when none was found yet, a later one may or may not replace it, anything
    # else leaves the accumulator alone; leaving the loop early is fine once an Alias has been taken
    bad = []
    for st, sig in res:
        pc = st.pc + st.hyps
        if prover.sat(pc)[0] == z3.unsat:
            continue
        acc1 = eng.term(st.env[accvar])
        ok_val = z3.And(z3.Implies(z3.Not(is_alias), acc1 == acc0), z3.Implies(z3.And(is_alias, acc0 == none), acc1 == nm),
                        z3.Implies(z3.And(is_alias, acc0 != none), z3.Or(acc1 == acc0, acc1 == nm)))
        if prover.prove("b", pc, ok_val).status != "proved":
            bad.append("one iteration does not take the Alias annotation's name (or changes the alias for a non-Alias annotation)")
        if sig is not None and sig[0] == "break":
            if prover.prove("b", pc, is_alias).status != "proved" and prover.prove("b", pc, acc1 != none).status != "proved":
                bad.append("the loop is left before an Alias annotation was found")
        elif sig is not None and sig[0] != "continue":
            bad.append(f"the loop body escapes ({sig[0]})")
    obs.append(_ob(oid2, "refuted" if bad else "proved", unit + " (loop body; invariant: alias is None or the name of an Alias in the prefix)", "; ".join(sorted(set(bad))), witness=_alias_witness() if bad else None))
    return obs


def _alias_witness():
    import itertools
    from dataclasses import dataclass, field
    from typing import Annotated

    from mashumaro import DataClassDictMixin
    from mashumaro.config import BaseConfig
    from mashumaro.types import Alias

    for m, a, c in itertools.product((None, "M"), ((), ("A1",), ("A1", "A2")), (None, "C")):
        ann = int if not a else Annotated[(int,) + tuple(Alias(x) for x in a)]
        ns = {"__annotations__": {"x": ann}, "x": field(default=0, metadata=({"alias": m} if m else {})),
              "Config": type("Config", (BaseConfig,), {"serialize_by_alias": True, **({"aliases": {"x": c}} if c else {})})}
        K = dataclass(type("K", (DataClassDictMixin,), ns))
        want = [m] if m else (list(a) if a else ([c] if c else ["x"]))
        got = list(K(1).to_dict())[0]
        if got not in want:
            return {"confirmed": True, "input": f"metadata alias={m!r}, Annotated aliases={a!r}, Config.aliases={c!r}", "why": f"serialized key {got!r}, expected {want!r}"}
    return None


# ------------------------------------------------------------------------------------------- S9
def verify_schema_overridden(pid, path="/repo/mashumaro/jsonschema/schema.py"):
    """jsonschema/schema.py:Instance.get_overridden_serialization_method - the schema side of C10's resolution,
    which build_json_schema runs for every position (C20: total; C06: same winner as the serializer).
    Loop body triple (invariant: serialize_option is None):
        pass_through -> return it; dict with a 'serialize' entry -> return the entry; SerializationStrategy whose
        .serialize is not None -> return it; anything else (None, a deserialize-only dict) -> falls through, raising nothing."""
    import mashumaro.jsonschema.schema as S
    from mashumaro.helper import pass_through
    from mashumaro.types import SerializationStrategy

    unit = "jsonschema/schema.py:Instance.get_overridden_serialization_method"
    oid = f"{pid}.S9[schema.get_overridden_serialization_method]/body"
    try:
        fn, _ = _method(path, "Instance", "get_overridden_serialization_method")
    except LookupError as e:
        return [_ob(oid, "undecided", unit, str(e))]
    loops = [n for n in fn.body if isinstance(n, ast.For)]
    if len(loops) != 1 or not isinstance(loops[0].target, ast.Name) or "iter_serialization_strategies" not in ast.unparse(loops[0].iter):
        return [_ob(oid, "undecided", unit, "the function no longer scans iter_serialization_strategies in one loop")]
    loop = loops[0]
    assigned = sorted({t.id for n in ast.walk(loop) for t in (n.targets if isinstance(n, ast.Assign) else []) if isinstance(t, ast.Name)})
    eng = pysym.Engine()
    V = eng.V
    self_t, strat = eng.fresh("self"), eng.fresh("strategy")
    attr = lambda o, n: eng.func(f"attr!{n}", V, V)(o)  # noqa
    none = eng.const(None)
    ex = pysym.Executor(eng, dict(S.__dict__))
    ex.assume_hasattr = True
    ex.nonraising_prefixes = ("",)
    env = {"self": Tm(self_t), loop.target.id: Tm(strat)}
    for n in assigned:
        env[n] = Ob(None)
    try:
        res = ex.exec_block(loop.body, pysym.State(env, []))
    except pysym.NotInSubset as e:
        return [_ob(oid, "undecided", unit, f"outside the verified subset: {e}")]
    prover = pysym.Prover(eng, 10000)
    PT = eng.const(pass_through)
    ty = eng.typeof(strat)
    is_dict = eng.issub(ty, eng.const(dict))
    is_ss = eng.issub(ty, eng.const(SerializationStrategy))
    entry = z3.If(eng.haskey(strat, eng.const("serialize")), eng.dval(strat, eng.const("serialize")), none)
    meth = attr(strat, "serialize")
    contributes = z3.Or(strat == PT, z3.And(is_dict, entry != none), z3.And(z3.Not(is_dict), is_ss, meth != none))
    winner = z3.If(strat == PT, PT, z3.If(is_dict, entry, meth))
    bad = []
    live = 0
    for st, sig in res:
        pc = st.pc + st.hyps + [z3.Not(z3.And(is_dict, is_ss))]
        if prover.sat(pc)[0] == z3.unsat:
            continue
        live += 1
        if sig is None:
            if prover.prove("b", pc, z3.Not(contributes)).status != "proved":
                bad.append("a registration that counts is skipped")
            for n in assigned:
                if prover.prove("b", pc, eng.term(st.env[n]) == none).status != "proved":
                    bad.append(f"invariant not restored: {n} may stay set")
        elif sig[0] == "return":
            if prover.prove("b", pc, z3.And(contributes, eng.term(sig[1]) == winner)).status != "proved":
                bad.append("an iteration returns something other than what its registration provides for serialization")
        elif sig[0] == "raise":
            bad.append(f"the loop body raises ({sig[1]!r}) for some registration: build_json_schema is not total"[:200])
        else:
            bad.append(f"the loop body escapes: {sig[0]}")
    w = None
    if bad:
        w = _schema_overridden_witness()
    return [_ob(oid, "undecided" if not live else ("refuted" if bad else "proved"), unit + " (loop body, invariant: serialize_option is None)", "; ".join(sorted(set(bad))), paths=live, witness=w)]


def _schema_overridden_witness():
    import datetime
    from dataclasses import dataclass, field

    from mashumaro import DataClassDictMixin, pass_through
    from mashumaro.config import BaseConfig
    from mashumaro.jsonschema import build_json_schema
    from mashumaro.types import SerializationStrategy

    class St(SerializationStrategy):
        def serialize(self, v) -> str:
            return str(v)

        def deserialize(self, v):
            return v

    regs = {"deserialize-only dict": {"deserialize": datetime.date.fromisoformat}, "pass_through": pass_through, "strategy": St(),
            "serialize dict": {"serialize": lambda v: v.isoformat(), "deserialize": datetime.date.fromisoformat}}
    for label, reg in regs.items():
        for where in ("config", "metadata"):
            ns = {"__annotations__": {"d": datetime.date}}
            if where == "config":
                ns["Config"] = type("Config", (BaseConfig,), {"serialization_strategy": {datetime.date: reg}})
            else:
                ns["d"] = field(metadata={"serialization_strategy": reg})
            try:
                K = dataclass(type("K", (DataClassDictMixin,), ns))
                build_json_schema(K).to_dict()
            except Exception as e:  # noqa
                return {"confirmed": True, "input": f"d: datetime.date with a {label} registered in the {where}", "why": f"build_json_schema raised {type(e).__name__}: {str(e)[:160]}"}
    return None

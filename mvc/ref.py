"""REF_ENC / REF_DEC / CLASS_OF: an independent, unoptimised reading of type hints, written from the
documented type table (README "Supported data types") and the statements of C02 / C03.

The reference for a type is *Python source* (an expression over a variable, possibly calling
auxiliary reference functions defined here), evaluated by the same symbolic engine as the
generated code; it is also executable natively, which is how counterexamples are replayed.
"""
from __future__ import annotations

import collections
import collections.abc
import dataclasses
import datetime
import decimal
import enum
import fractions
import ipaddress
import os
import pathlib
import re
import types
import typing
import uuid
import zoneinfo
from base64 import decodebytes, encodebytes

import typing_extensions

NoneType = type(None)


class Unsupported(Exception):
    pass


def _origin(t):
    return typing_extensions.get_origin(t)


def _args(t):
    return typing_extensions.get_args(t)


def strip(t):
    """Annotated / Final / NewType / ClassVar wrappers -> underlying type"""
    while True:
        o = _origin(t)
        if o is typing_extensions.Annotated:
            t = _args(t)[0]
        elif o in (typing.Final, typing_extensions.Final):
            t = _args(t)[0]
        elif hasattr(t, "__supertype__"):
            t = t.__supertype__
        elif isinstance(t, typing.TypeVar):
            if t.__constraints__:
                t = typing.Union[t.__constraints__]
            elif t.__bound__ is not None:
                t = t.__bound__
            else:
                t = typing.Any
        else:
            return t


def is_optional(t):
    t = strip(t)
    return _origin(t) in (typing.Union, types.UnionType) and NoneType in _args(t)


def is_namedtuple(t):
    return isinstance(t, type) and issubclass(t, tuple) and hasattr(t, "_fields")


def is_typeddict(t):
    return typing_extensions.is_typeddict(t)


def is_mixin_dataclass(t):
    return isinstance(t, type) and dataclasses.is_dataclass(t) and hasattr(t, "__mashumaro_from_dict__")


PATH_TYPES = (pathlib.PurePath, pathlib.Path, pathlib.PurePosixPath, pathlib.PosixPath, pathlib.PureWindowsPath)
IP_TYPES = (ipaddress.IPv4Address, ipaddress.IPv6Address, ipaddress.IPv4Network, ipaddress.IPv6Network,
            ipaddress.IPv4Interface, ipaddress.IPv6Interface)
STR_LEAVES = (uuid.UUID, decimal.Decimal, fractions.Fraction, zoneinfo.ZoneInfo) + IP_TYPES


def subst_params(t, sub):
    """substitute type parameters inside an annotation (Annotated metadata is kept)"""
    try:
        if t in sub:
            return sub[t]
    except TypeError:
        return t
    o = typing_extensions.get_origin(t)
    args = typing_extensions.get_args(t)
    if o is None or not args:
        return t
    try:
        if o in (typing.Annotated, typing_extensions.Annotated):
            return typing.Annotated[(subst_params(args[0], sub),) + tuple(args[1:])]
        new = tuple(subst_params(a, sub) if not isinstance(a, (str, int, bytes, bool, type(None))) else a for a in args)
        if o in (typing.Union, types.UnionType):
            return typing.Union[new]
        if o in (typing.Literal, typing_extensions.Literal):
            return t
        return t.copy_with(new) if hasattr(t, "copy_with") else o[new]
    except Exception:
        return t


def type_param_map(cls):
    """TypeVar -> argument for every generic ancestor of cls that is specialised along the bases"""
    m = {}

    def walk(c, sub):
        for b in getattr(c, "__orig_bases__", ()):
            o = typing_extensions.get_origin(b)
            if o is None or not getattr(o, "__parameters__", None):
                continue
            args = tuple(subst_params(a, sub) for a in typing_extensions.get_args(b))
            inner = dict(zip(o.__parameters__, args))
            m.update(inner)
            walk(o, inner)
        for b in getattr(c, "__bases__", ()):
            if b is not object and not any(typing_extensions.get_origin(ob) is b for ob in getattr(c, "__orig_bases__", ())):
                walk(b, sub)

    walk(cls, {})
    return m


PARAM_OVERRIDE = {}  # generic class -> {TypeVar: argument}: the specialisation a unit was compiled for


def resolved_hints(cls):
    """get_type_hints with the type parameters of specialised generic ancestors substituted"""
    hints = typing_extensions.get_type_hints(cls, include_extras=True)
    m = type_param_map(cls)
    if cls in PARAM_OVERRIDE:
        m = {**m, **PARAM_OVERRIDE[cls]}
    if not m:
        return hints
    return {k: subst_params(v, m) for k, v in hints.items()}


class RefGen:
    """generates reference source for one schema; objects are bound under fresh names in ns"""

    def __init__(self, native=(), no_copy=(), namedtuple_as_dict=False):
        self.ns = {
            "decodebytes": decodebytes,
            "encodebytes": encodebytes,
            "collections": collections,
            "types": types,
            "re": re,
            "datetime": datetime,
            "pathlib": pathlib,
        }
        self.defs = []  # source of auxiliary reference functions
        self.n = 0
        self.native = tuple(native)  # types a format dialect leaves unconverted
        self.no_copy = tuple(no_copy)
        self.namedtuple_as_dict = namedtuple_as_dict
        self.static_dataclasses = False
        self.owner = None  # the class whose fields are being described (for typing.Self)
        self.union_enc_isinstance = False
        self.union_mode = "strict"
        self.dataclass_call = None  # callable(gen, cls, x, 'to'|'from') -> expression (format / flag aware)
        self.resolve = None  # callable(type, direction) -> registration | None  (customizations)

    def bind(self, obj, hint="o"):
        for k, v in self.ns.items():
            if v is obj and k.startswith("_r"):
                return k
        self.n += 1
        name = f"_r{self.n}_{re.sub(r'[^A-Za-z0-9]', '', getattr(obj, '__name__', hint))[:20]}"
        self.ns[name] = obj
        return name

    def var(self):
        self.n += 1
        return f"_v{self.n}"

    # ------------------------------------------------------------------ customizations
    def _override(self, t, x, direction):
        """the winning registration for this type position, if any (C10 precedence is decided by
        self.resolve); pass_through leaves the value untouched"""
        if self.resolve is None:
            return None
        from mashumaro.helper import pass_through
        from mashumaro.types import SerializationStrategy

        reg = self.resolve(t, direction)
        if reg is None:
            return None
        if reg is pass_through:
            return x
        if isinstance(reg, SerializationStrategy):
            return f"{self.bind(reg, 'strategy')}.{direction}({x})"
        if callable(reg):
            return f"{self.bind(reg, 'fn')}({x})"
        raise Unsupported(f"registration {reg!r}")

    # ------------------------------------------------------------------ decode
    def dec(self, t, x, nullable_done=False):
        """reference expression deserialising the expression source ``x`` as type ``t``"""
        if isinstance(t, typing.TypeVar) and not t.__constraints__ and t.__bound__ is not None:
            # mashumaro's stated rule (unpack.py "act as if it was Optional[bound]"): a bound
            # TypeVar position accepts null on input
            inner = self.dec(t.__bound__, x)
            return inner if inner == x else f"({inner} if {x} is not None else None)"
        over = self._override(t, x, "deserialize")
        if over is not None:
            return over
        if t in (typing_extensions.Self, getattr(typing, "Self", None)) and self.owner is not None:
            t = self.owner
        t = strip(t)
        o = _origin(t)
        if t is typing.Any or t is object:
            return x
        if t in self.native:
            return x
        if o in (typing.Union, types.UnionType):
            args = _args(t)
            rest = [a for a in args if a is not NoneType]
            if NoneType in args and len(rest) == 1:
                inner = self.dec(rest[0], x)
                if inner == x:
                    return x
                return f"({inner} if {x} is not None else None)"
            return self._dec_union(args, x)
        if o in (typing.Literal, typing_extensions.Literal):
            return self._dec_literal(t, x)
        if t is NoneType or t is None:
            return "None"
        if t in (int, float, bool, str):
            return f"{t.__name__}({x})"
        if isinstance(t, type) and hasattr(t, "_deserialize") and hasattr(t, "_serialize"):
            return f"{self.bind(t)}._deserialize({x})"
        if is_mixin_dataclass(o) and _args(t) and self.dataclass_call is not None:
            return self.dataclass_call(self, t, x, "from")  # a specialised generic mixin class
        if is_mixin_dataclass(t):
            if self.dataclass_call is not None:
                return self.dataclass_call(self, t, x, "from")
            return f"{self.bind(t)}.__mashumaro_from_dict__({x})"
        if t in (datetime.datetime, datetime.date, datetime.time):
            return f"datetime.{t.__name__}.fromisoformat({x})"
        if t is datetime.timedelta:
            return f"datetime.timedelta(seconds={x})"
        if t is datetime.timezone:
            from mashumaro.core.helpers import parse_timezone

            return f"{self.bind(parse_timezone)}({x})"
        if t in STR_LEAVES:
            return f"{self.bind(t)}({x})"
        if t is os.PathLike:
            return f"pathlib.PurePath({x})"
        if isinstance(t, type) and issubclass(t, os.PathLike):
            return f"{self.bind(t)}({x})"
        if t is bytes:
            return f"decodebytes({x}.encode())"
        if t is bytearray:
            return f"bytearray(decodebytes({x}.encode()))"
        if t in (typing.Pattern, re.Pattern) or o in (re.Pattern,):
            return f"re.compile({x})"
        if isinstance(t, type) and issubclass(t, enum.Enum):
            return f"{self.bind(t)}({x})"
        if is_namedtuple(t):
            return self._dec_namedtuple(t, x)
        if is_typeddict(t):
            return self._dec_typeddict(t, x)
        base = o if o is not None else t
        args = _args(t)
        if base in (tuple, typing.Tuple):
            return self._dec_tuple(args, x, t)
        if isinstance(base, type):
            if issubclass(base, collections.abc.Mapping) or base is collections.abc.Mapping:
                return self._dec_mapping(base, args, x)
            if issubclass(base, (collections.abc.Collection,)):
                return self._dec_seq(base, args, x)
        raise Unsupported(f"no reference for {t!r}")

    # ---- C11: UNION_DEC / Literal, from the property statement
    def _flat_members(self, args):
        out = []
        for a in args:
            sa = strip(a)
            if _origin(sa) in (typing.Union, types.UnionType):
                out.extend(self._flat_members(_args(sa)))
            else:
                out.append(a)
        seen, res = [], []
        for a in out:
            if not any(a is b or a == b for b in seen):
                seen.append(a)
                res.append(a)
        return res

    def _dec_union(self, args, x):
        """the input unchanged if its exact type is a basic scalar member; a null member matches
        only null; otherwise the first member in declaration order that accepts; else raise"""
        members = self._flat_members(args)
        fn = f"_ref_union{self.n}"
        self.n += 1
        lines = [f"def {fn}(value):"]
        if self.union_mode == "staged":
            # regression contract of the unchanged tree (NOT the property): members in declaration
            # order - an exact-type test for a scalar/null member, an attempt for any other member;
            # then the scalar coercions in declaration order, null member: None
            for m in members:
                sm = strip(m)
                if sm in (int, float, bool, str):
                    lines += [f"    if type(value) is {sm.__name__}:", "        return value"]
                elif sm is NoneType or sm is None:
                    lines += ["    if value is None:", "        return value"]
                else:
                    lines += ["    try:", f"        return {self.dec(m, 'value')}", "    except Exception:", "        pass"]
            for m in members:
                sm = strip(m)
                if sm in (int, float, bool, str):
                    lines += ["    try:", f"        return {sm.__name__}(value)", "    except Exception:", "        pass"]
                elif sm is NoneType or sm is None:
                    lines += ["    return None"]
                    break
            lines.append("    raise ValueError(value)")
            self.defs.append("\n".join(lines))
            return f"{fn}({x})"
        for m in members:
            sm = strip(m)
            if sm in (int, float, bool, str):
                lines.append(f"    if type(value) is {sm.__name__}:")
                lines.append("        return value")
            elif sm is NoneType or sm is None:
                lines.append("    if value is None:")
                lines.append("        return None")
        for m in members:
            sm = strip(m)
            if sm is NoneType or sm is None:
                continue
            lines.append("    try:")
            lines.append(f"        return {self.dec(m, 'value')}")
            lines.append("    except Exception:")
            lines.append("        pass")
        lines.append("    raise ValueError(value)")
        self.defs.append("\n".join(lines))
        return f"{fn}({x})"

    def _literal_values(self, t):
        out = []
        for a in _args(t):
            if _origin(a) in (typing.Literal, typing_extensions.Literal):
                out.extend(self._literal_values(a))
            else:
                out.append(a)
        return out

    def _dec_literal(self, t, x):
        """accepts exactly the listed values (in listing order) and returns the listed constant"""
        fn = f"_ref_literal{self.n}"
        self.n += 1
        lines = [f"def {fn}(value):"]
        for v in self._literal_values(t):
            if isinstance(v, enum.Enum):
                e = self.bind(type(v))
                lines.append(f"    if value == {e}.{v.name}.value:")
                lines.append(f"        return {e}.{v.name}")
            elif isinstance(v, bytes):
                lines.append("    try:")
                lines.append(f"        if decodebytes(value.encode()) == {v!r}:")
                lines.append(f"            return {v!r}")
                lines.append("    except Exception:")
                lines.append("        pass")
            else:
                lines.append(f"    if value == {v!r}:")
                lines.append(f"        return {v!r}")
        lines.append("    raise ValueError(value)")
        self.defs.append("\n".join(lines))
        return f"{fn}({x})"

    def _enc_literal(self, t, x):
        fn = f"_ref_literal_enc{self.n}"
        self.n += 1
        lines = [f"def {fn}(value):"]
        for v in self._literal_values(t):
            if isinstance(v, enum.Enum):
                e = self.bind(type(v))
                lines.append(f"    if value == {e}.{v.name}:")
                lines.append(f"        return {self.enc(type(v), 'value')}")
            else:
                lines.append(f"    if value == {v!r}:")
                lines.append(f"        return {self.enc(type(v), 'value')}")
        lines.append("    raise ValueError(value)")
        self.defs.append("\n".join(lines))
        return f"{fn}({x})"

    def _enc_union(self, args, x):
        """picks the member matching the value: exact class for members with a concrete class
        (scalars unchanged), in declaration order"""
        members = self._flat_members(args)
        fn = f"_ref_union_enc{self.n}"
        self.n += 1
        lines = [f"def {fn}(value):"]
        for m in members:
            sm = strip(m)
            k = _origin(sm) or sm
            if sm is NoneType or sm is None:
                lines.append("    if value is None:")
                lines.append("        return None")
                continue
            if not isinstance(k, type):
                raise Unsupported(f"union member without a concrete class: {m!r}")
            lines.append(f"    if isinstance(value, {self.bind(k)}):" if self.union_enc_isinstance else f"    if value.__class__ is {self.bind(k)}:")
            lines.append(f"        return {self.enc(m, 'value')}")
        lines.append("    raise ValueError(value)")
        self.defs.append("\n".join(lines))
        return f"{fn}({x})"

    def _dec_seq(self, base, args, x):
        v = self.var()
        elem = self.dec(args[0] if args else typing.Any, v)
        comp = f"[{elem} for {v} in {x}]"
        if base is collections.deque:
            return f"collections.deque({comp})"
        if base in (frozenset,):
            return f"frozenset({comp})"
        if issubclass(base, collections.abc.Set):
            return f"set({comp})"
        # list, Sequence, MutableSequence, Collection, ...: canonical concrete class list
        return comp

    def _dec_mapping(self, base, args, x):
        k, v = self.var(), self.var()
        kt = args[0] if args else typing.Any
        vt = args[1] if len(args) > 1 else typing.Any
        if base is collections.Counter:
            kt, vt = (args[0] if args else typing.Any), int
        if base is collections.ChainMap:
            m = self.var()
            inner = f"{{{self.dec(kt, k)}: {self.dec(vt, v)} for {k}, {v} in {m}.items()}}"
            return f"collections.ChainMap(*[{inner} for {m} in {x}])"
        d = f"{{{self.dec(kt, k)}: {self.dec(vt, v)} for {k}, {v} in {x}.items()}}"
        if base is collections.OrderedDict:
            return f"collections.OrderedDict({d})"
        if base is collections.defaultdict:
            vt0 = strip(vt)
            factory = "None" if not args else self._type_ref(args[1])
            return f"collections.defaultdict({factory}, {d})"
        if base is collections.Counter:
            return f"collections.Counter({d})"
        if base is types.MappingProxyType:
            return f"types.MappingProxyType({d})"
        return d

    def _type_ref(self, t):
        if t is typing.Any:
            return self.bind(typing.Any, "Any")
        return self.bind(t, "t")

    def _dec_tuple(self, args, x, t):
        if not args:
            if t in (tuple, typing.Tuple):
                args = (typing.Any, Ellipsis)
            else:
                return "()"
        if len(args) == 1 and args[0] == ():
            return "tuple([])"
        if len(args) == 2 and args[1] is Ellipsis:
            v = self.var()
            return f"tuple([{self.dec(args[0], v)} for {v} in {x}])"
        n = len(args)
        parts = []
        unpack_at = [i for i, a in enumerate(args) if _is_unpack(a)]
        if len(unpack_at) > 1:
            raise Unsupported("multiple unpacks")
        for i, a in enumerate(args):
            if _is_unpack(a):
                inner = _unpacked(a)
                after = n - 1 - i
                sl = f"{x}[{i}:{-after}]" if after else (f"{x}[{i}:]" if n > 1 else f"{x}[{i}:]")
                if n == 1:
                    sl = f"{x}[0:]"
                parts.append("*" + self.dec(inner, sl))
            elif unpack_at and i > unpack_at[0]:
                parts.append(self.dec(a, f"{x}[{i - n}]"))
            else:
                parts.append(self.dec(a, f"{x}[{i}]"))
        return f"tuple([{', '.join(parts)}])"

    def _dec_namedtuple(self, t, x):
        hints = typing_extensions.get_type_hints(t)
        fields = t._fields
        defaults = getattr(t, "_field_defaults", {})
        name = self.bind(t)
        if self.namedtuple_as_dict:
            idx = [repr(f) for f in fields]
        else:
            idx = [str(i) for i in range(len(fields))]
        if not defaults:
            parts = [self.dec(hints.get(f, typing.Any), f"{x}[{i}]") for f, i in zip(fields, idx)]
            return f"{name}({', '.join(parts)})"
        # documented: trailing fields with defaults may be absent from the input
        fn = f"_ref_nt{self.n}_{t.__name__}"
        self.n += 1
        # (only the ABSENCE of a position ends the scan: an IndexError raised while converting a present member is that
        # member's failure, not an absent field)
        lines = [f"def {fn}(value):", "    fields = []"]
        for f, i in zip(fields, idx):
            lines += ["    try:", f"        item = value[{i}]", "    except IndexError:", f"        return {name}(*fields)",
                      f"    fields.append({self.dec(hints.get(f, typing.Any), 'item')})"]
        lines += [f"    return {name}(*fields)"]
        self.defs.append("\n".join(lines))
        return f"{fn}({x})"

    def _dec_typeddict(self, t, x):
        hints = typing_extensions.get_type_hints(t)
        keys = list(hints)
        req = [k for k in keys if k in getattr(t, "__required_keys__", keys)]
        opt = [k for k in keys if k in getattr(t, "__optional_keys__", ())]
        fn = f"_ref_td{self.n}_{t.__name__}"
        self.n += 1
        missing = self.bind(dataclasses.MISSING, "MISSING")
        lines = [f"def {fn}(value):", "    d = {}"]
        for k in req:
            lines.append(f"    d[{k!r}] = {self.dec(hints[k], f'value[{k!r}]')}")
        for k in opt:
            lines.append(f"    kv = value.get({k!r}, {missing})")
            lines.append(f"    if kv is not {missing}:")
            lines.append(f"        d[{k!r}] = {self.dec(hints[k], 'kv')}")
        lines.append("    return d")
        self.defs.append("\n".join(lines))
        return f"{fn}({x})"

    # ------------------------------------------------------------------ encode
    def enc(self, t, x):
        over = self._override(t, x, "serialize")
        if over is not None:
            return over
        if t in (typing_extensions.Self, getattr(typing, "Self", None)) and self.owner is not None:
            t = self.owner
        t = strip(t)
        o = _origin(t)
        if t is typing.Any or t is object:
            return x
        if t in self.native:
            return x
        if o in (typing.Union, types.UnionType):
            args = _args(t)
            rest = [a for a in args if a is not NoneType]
            if NoneType in args and len(rest) == 1:
                inner = self.enc(rest[0], x)
                if inner == x:
                    return x
                return f"({inner} if {x} is not None else None)"
            return self._enc_union(args, x)
        if o in (typing.Literal, typing_extensions.Literal):
            return self._enc_literal(t, x)
        if t is NoneType or t is None or t in (int, float, bool, str):
            return x
        if isinstance(t, type) and hasattr(t, "_deserialize") and hasattr(t, "_serialize"):
            return f"{x}._serialize()"
        if is_mixin_dataclass(o) and _args(t) and self.dataclass_call is not None:
            return self.dataclass_call(self, t, x, "to")  # a specialised generic mixin class
        if is_mixin_dataclass(t):
            if self.dataclass_call is not None:
                return self.dataclass_call(self, t, x, "to")
            if self.static_dataclasses:
                # codec path: the unit compiled for exactly this class (no dynamic dispatch)
                return f"{self.bind(t)}.__mashumaro_to_dict__({x})"
            return f"{x}.__mashumaro_to_dict__()"
        if t in (datetime.datetime, datetime.date, datetime.time):
            return f"{x}.isoformat()"
        if t is datetime.timedelta:
            return f"{x}.total_seconds()"
        if t is datetime.timezone:
            return f"{x}.tzname(None)"
        if t in STR_LEAVES:
            return f"str({x})"
        if t is os.PathLike or (isinstance(t, type) and issubclass(t, os.PathLike)):
            return f"{x}.__fspath__()"
        if t in (bytes, bytearray):
            return f"encodebytes({x}).decode()"
        if t in (typing.Pattern, re.Pattern) or o in (re.Pattern,):
            return f"{x}.pattern"
        if isinstance(t, type) and issubclass(t, enum.Enum):
            return f"{x}.value"
        if is_namedtuple(t):
            hints = typing_extensions.get_type_hints(t)
            parts = [self.enc(hints.get(f, typing.Any), f"{x}[{i}]") for i, f in enumerate(t._fields)]
            if self.namedtuple_as_dict:
                return "{" + ", ".join(f"{f!r}: {p}" for f, p in zip(t._fields, parts)) + "}"
            return f"[{', '.join(parts)}]"
        if is_typeddict(t):
            return self._enc_typeddict(t, x)
        base = o if o is not None else t
        args = _args(t)
        if base in (tuple, typing.Tuple):
            return self._enc_tuple(args, x, t)
        if isinstance(base, type):
            if issubclass(base, collections.abc.Mapping) or base is collections.abc.Mapping:
                return self._enc_mapping(base, args, x)
            if issubclass(base, collections.abc.Collection):
                v = self.var()
                elem = self.enc(args[0] if args else typing.Any, v)
                if elem == v and base in self.no_copy:
                    return x
                return f"[{elem} for {v} in {x}]"
        raise Unsupported(f"no reference for {t!r}")

    def _enc_mapping(self, base, args, x):
        k, v = self.var(), self.var()
        kt = args[0] if args else typing.Any
        vt = args[1] if len(args) > 1 else typing.Any
        if base is collections.Counter:
            vt = int
        if base is collections.ChainMap:
            m = self.var()
            return f"[{{{self.enc(kt, k)}: {self.enc(vt, v)} for {k}, {v} in {m}.items()}} for {m} in {x}.maps]"
        ke, ve = self.enc(kt, k), self.enc(vt, v)
        if ke == k and ve == v and base in self.no_copy:
            return x
        return f"{{{ke}: {ve} for {k}, {v} in {x}.items()}}"

    def _enc_tuple(self, args, x, t):
        if not args:
            if t in (tuple, typing.Tuple):
                args = (typing.Any, Ellipsis)
            else:
                return "[]"
        if len(args) == 1 and args[0] == ():
            return "[]"
        if len(args) == 2 and args[1] is Ellipsis:
            v = self.var()
            return f"[{self.enc(args[0], v)} for {v} in {x}]"
        n = len(args)
        parts = []
        unpack_at = [i for i, a in enumerate(args) if _is_unpack(a)]
        for i, a in enumerate(args):
            if _is_unpack(a):
                after = n - 1 - i
                sl = f"{x}[{i}:{-after}]" if after else f"{x}[{i}:]"
                if n == 1:
                    sl = f"{x}[0:]"
                parts.append("*" + self.enc(_unpacked(a), sl))
            elif unpack_at and i > unpack_at[0]:
                parts.append(self.enc(a, f"{x}[{i - n}]"))
            else:
                parts.append(self.enc(a, f"{x}[{i}]"))
        return f"[{', '.join(parts)}]"

    def _enc_typeddict(self, t, x):
        hints = typing_extensions.get_type_hints(t)
        keys = list(hints)
        req = [k for k in keys if k in getattr(t, "__required_keys__", keys)]
        opt = [k for k in keys if k in getattr(t, "__optional_keys__", ())]
        fn = f"_ref_tde{self.n}_{t.__name__}"
        self.n += 1
        missing = self.bind(dataclasses.MISSING, "MISSING")
        lines = [f"def {fn}(value):", "    d = {}"]
        for k in req:
            lines.append(f"    d[{k!r}] = {self.enc(hints[k], f'value[{k!r}]')}")
        for k in opt:
            lines.append(f"    kv = value.get({k!r}, {missing})")
            lines.append(f"    if kv is not {missing}:")
            lines.append(f"        d[{k!r}] = {self.enc(hints[k], 'kv')}")
        lines.append("    return d")
        self.defs.append("\n".join(lines))
        return f"{fn}({x})"


def _is_unpack(a):
    return _origin(a) in (typing_extensions.Unpack, getattr(typing, "Unpack", None)) or getattr(a, "__unpacked__", False) is True or (
        hasattr(a, "__typing_is_unpacked_typevartuple__")
    )


def _unpacked(a):
    if _origin(a) in (typing_extensions.Unpack, getattr(typing, "Unpack", None)):
        return _args(a)[0]
    # *tuple[...] form
    return a

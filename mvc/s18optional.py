"""S18: which member of Optional[T] is converted (helpers.py:not_none_type_arg; called by
pack.py / unpack.py for `Optional[...]` and by helpers.type_name).

C11: `Optional[T]` converts a non-None value as T.  The emitters take T from
not_none_type_arg(get_args(typ), resolved_type_params), so the function must return

    the FIRST argument a_i whose resolution r_i is not NoneType, None when there is none,
    r_i = resolved_type_params.get(a_i, a_i),  and r_i = a_i when no map is given          (spec)

and it must return the argument itself, not its resolution (the caller resolves again).

  /first-non-none{n}   symbolic, for every arity n of ARITIES: the function's real AST (re-read from
        /repo every run) is executed by pysym on a tuple of n arbitrary objects and an arbitrary
        resolved_type_params (None or any mapping); the specification is a loop-free closed form
        generated for the arity and evaluated by the same engine; for every feasible pair (code path,
        spec path) z3 proves `same outcome`.  The loop is unrolled completely for the arity, so each
        arity is a full proof; the family of arities is finite and stated (Optional has 2 arguments; a
        Union that mashumaro treats as Optional after resolution has 2) - arity beyond max(ARITIES)
        is not covered.  Precondition (stated, unchecked): the arguments are hashable (type objects
        are) - an unhashable argument makes dict.get raise TypeError in code and spec alike.
  /native{bounded}     bounded (labelled so): the real function against the Python reading of the spec on
        every tuple over a small alphabet of real types x resolution maps; supplies the replayed
        input when the symbolic obligation is refuted.
"""
from __future__ import annotations

import ast
import itertools

import z3

from . import pysym
from .pysym import LL, Tm

HELPERS = "/repo/mashumaro/core/meta/helpers.py"
ARITIES = (0, 1, 2, 3, 4)
UNIT = "helpers.py:not_none_type_arg"


def _spec_src(n):
    a = [f"a{i}" for i in range(n)]
    lines = ["def spec(%s):" % ", ".join(a + ["resolved_type_params"])]
    for i in range(n):
        lines.append(f"    r{i} = a{i} if resolved_type_params is None else resolved_type_params.get(a{i}, a{i})")
    for i in range(n):
        lines.append(f"    if r{i} is not NoneType:")
        lines.append(f"        return a{i}")
    lines.append("    return None")
    return "\n".join(lines) + "\n"


def _py_spec(args, m):
    for a in args:
        r = a if m is None else m.get(a, a)
        if r is not type(None):
            return a
    return None


def _fn(path):
    mod = ast.parse(open(path).read())
    fns = [n for n in mod.body if isinstance(n, ast.FunctionDef) and n.name == "not_none_type_arg"]
    return fns[0] if fns else None


def native_witness():
    """the real function against the spec on a small alphabet; first disagreement as a replay dict"""
    from typing import TypeVar

    from mashumaro.core.meta.helpers import not_none_type_arg

    T, U = TypeVar("T"), TypeVar("U")
    NoneType = type(None)
    alpha = [int, NoneType, T, U]
    maps = [None, {}, {T: NoneType}, {T: int}, {T: NoneType, U: NoneType}, {T: NoneType, U: str}, {int: NoneType}]
    n = 0
    for k in range(0, 4):
        for args in itertools.product(alpha, repeat=k):
            for m in maps:
                n += 1
                want = _py_spec(args, m)
                try:
                    got = not_none_type_arg(args, m) if m is not None else not_none_type_arg(args)
                except Exception as e:  # noqa
                    return n, {"confirmed": True, "input": f"not_none_type_arg({args!r}, {m!r})", "why": f"raised {type(e).__name__}: {e}; the first argument not resolving to NoneType is {want!r}"}
                if got is not want:
                    return n, {"confirmed": True, "input": f"not_none_type_arg({args!r}, {m!r})", "why": f"returned {got!r}; the first argument whose resolution is not NoneType is {want!r}"}
    return n, None


def verify_arity(pid, n, fn):
    import mashumaro.core.meta.helpers as H

    oid = f"{pid}.S18[not_none_type_arg]/first-non-none{{{n}}}"
    eng = pysym.Engine()
    items = [Tm(eng.fresh(f"a{i}")) for i in range(n)]
    rtp = Tm(eng.fresh("resolved_type_params"))
    ns = dict(H.__dict__)
    params = [a.arg for a in fn.args.posonlyargs + fn.args.args]
    if len(params) != 2:
        return dict(id=oid, status="undecided", unit=UNIT, detail=f"signature changed: {params}")
    spec_fn = ast.parse(_spec_src(n)).body[0]
    try:
        ex = pysym.Executor(eng, ns)
        ex.assume_hasattr = True
        code = ex.run(fn, {params[0]: LL("tuple", items), params[1]: rtp})
        ex2 = pysym.Executor(eng, ns)
        ex2.assume_hasattr = True
        spec = ex2.run(spec_fn, dict({f"a{i}": items[i] for i in range(n)}, resolved_type_params=rtp))
    except pysym.NotInSubset as e:
        return dict(id=oid, status="undecided", unit=UNIT, detail=f"outside the verified subset: {e}")
    prover = pysym.Prover(eng, 10000)
    code = [p for p in code if prover.sat(p.pc)[0] != z3.unsat]
    spec = [p for p in spec if prover.sat(p.pc)[0] != z3.unsat]
    if not code or not spec or any(q.kind != "return" for q in spec):
        return dict(id=oid, status="undecided", unit=UNIT, detail="no feasible path / the specification raises")
    bad, pairs = [], 0
    for p in code:
        for q in spec:
            pc = list(p.pc) + list(q.pc)
            s = prover.sat(pc)[0]
            if s == z3.unsat:
                continue
            if s != z3.sat:
                return dict(id=oid, status="undecided", unit=UNIT, detail="solver: unknown on a path pair")
            pairs += 1
            if p.kind != "return":
                bad.append(f"a path raises {p.value!r} where the specification returns")
                continue
            try:
                v = prover.prove("same", pc, eng.term(p.value) == eng.term(q.value))
            except pysym.NotInSubset as e:
                return dict(id=oid, status="undecided", unit=UNIT, detail=f"outside the verified subset: {e}")
            if v.status == "unknown":
                return dict(id=oid, status="undecided", unit=UNIT, detail=f"solver: {v.detail}")
            if v.status != "proved":
                bad.append("the result is not the first argument whose resolution (resolved_type_params.get(a, a); a itself without a map) is not NoneType")
    # totality: the spec's path conditions cover every input, so every code path met at least one spec path
    w = None
    if bad:
        _, w = native_witness()
    return dict(id=oid, status="refuted" if bad else "proved", unit=UNIT, detail="; ".join(sorted(set(bad))), paths=pairs, witness=w)


def all_obligations(pid, path=HELPERS):
    fn = _fn(path)
    if fn is None:
        return [dict(id=f"{pid}.S18[not_none_type_arg]/first-non-none", status="undecided", unit=UNIT, detail="not_none_type_arg not found")]
    obs = [verify_arity(pid, n, fn) for n in ARITIES]
    n, w = native_witness()
    obs.append(dict(id=f"{pid}.S18[not_none_type_arg]/native{{bounded}}", status="refuted" if w else "proved", unit=UNIT + f" (bounded: {n} concrete calls)",
                    detail=(w or {}).get("why", ""), witness=w, bounded=True))
    return obs


if __name__ == "__main__":
    import sys

    for o in all_obligations("C11", *(sys.argv[1:2])):
        print(o["status"], o["id"], o.get("paths"), o["detail"], o.get("witness"))

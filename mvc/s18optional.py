"""S18: which member of Optional[T] is converted (helpers.py:not_none_type_arg; called by
pack.py / unpack.py for `Optional[...]` and by helpers.type_name).

C11: `Optional[T]` converts a non-None value as T.  The emitters take T from
not_none_type_arg(get_args(typ), resolved_type_params), so the function must return

    the FIRST argument a_i whose resolution r_i is not NoneType, None when there is none,
    r_i = resolved_type_params.get(a_i, a_i),  and r_i = a_i when no map is given          (spec)

and it must return the argument itself, not its resolution (the caller resolves again).

  /first-non-none{n}   symbolic, for every arity n of ARITIES: the function's real AST (re-read from
        /repo every run) is executed by pysym on a tuple of n arbitrary objects and an arbitrary
        resolved_type_params (None or any mapping); the specification is a loop-free closed form
        generated for the arity and evaluated by the same engine; for every feasible pair (code path,
        spec path) z3 proves `same outcome`.  The loop is unrolled completely for the arity, so each
        arity is a full proof; the family of arities is finite and stated (Optional has 2 arguments; a
        Union that mashumaro treats as Optional after resolution has 2) - arity beyond max(ARITIES)
        is not covered.  Precondition (stated, unchecked): the arguments are hashable (type objects
        are) - an unhashable argument makes dict.get raise TypeError in code and spec alike.
  S19 /two-args-one-none{n}   helpers.py:is_optional(typ, resolved_type_params), the test by which pack.py / unpack.py
        decide that a union is an Optional: True exactly when is_union(typ), typ has two arguments and one of them
        resolves to NoneType.  Same method: the real AST on an arbitrary typ whose get_args is a tuple of n arbitrary
        objects (n in ARITIES; trusted: typing.get_args returns a tuple; is_union uninterpreted and non-raising),
        against a closed form, discharged by z3.
  /native{bounded}     bounded (labelled so): the real function against the Python reading of the spec on
        every tuple over a small alphabet of real types x resolution maps; supplies the replayed
        input when the symbolic obligation is refuted.
"""
from __future__ import annotations

import ast
import itertools

import z3

from . import pysym
from .pysym import LL, Ob, Tm

HELPERS = "/repo/mashumaro/core/meta/helpers.py"
ARITIES = (0, 1, 2, 3, 4)
UNIT = "helpers.py:not_none_type_arg"


def _spec_src(n):
    a = [f"a{i}" for i in range(n)]
    lines = ["def spec(%s):" % ", ".join(a + ["resolved_type_params"])]
    for i in range(n):
        lines.append(f"    r{i} = a{i} if resolved_type_params is None else resolved_type_params.get(a{i}, a{i})")
    for i in range(n):
        lines.append(f"    if r{i} is not NoneType:")
        lines.append(f"        return a{i}")
    lines.append("    return None")
    return "\n".join(lines) + "\n"


def _spec_src_opt(n):
    a = [f"a{i}" for i in range(n)]
    lines = ["def spec(%s):" % ", ".join(["typ"] + a + ["resolved_type_params"])]
    if n != 2:
        lines.append("    return False")
        return "\n".join(lines) + "\n"
    for i in range(n):
        lines.append(f"    r{i} = a{i} if resolved_type_params is None else resolved_type_params.get(a{i}, a{i})")
    lines.append("    if is_union(typ) and (r0 is NoneType or r1 is NoneType):")
    lines.append("        return True")
    lines.append("    return False")
    return "\n".join(lines) + "\n"


def _py_spec(args, m):
    for a in args:
        r = a if m is None else m.get(a, a)
        if r is not type(None):
            return a
    return None


def _fn(path, name="not_none_type_arg"):
    mod = ast.parse(open(path).read())
    fns = [n for n in mod.body if isinstance(n, ast.FunctionDef) and n.name == name]
    return fns[0] if fns else None


def native_witness():
    """the real function against the spec on a small alphabet; first disagreement as a replay dict"""
    from typing import TypeVar

    from mashumaro.core.meta.helpers import not_none_type_arg

    T, U = TypeVar("T"), TypeVar("U")
    NoneType = type(None)
    alpha = [int, NoneType, T, U]
    maps = [None, {}, {T: NoneType}, {T: int}, {T: NoneType, U: NoneType}, {T: NoneType, U: str}, {int: NoneType}]
    n = 0
    for k in range(0, 4):
        for args in itertools.product(alpha, repeat=k):
            for m in maps:
                n += 1
                want = _py_spec(args, m)
                try:
                    got = not_none_type_arg(args, m) if m is not None else not_none_type_arg(args)
                except Exception as e:  # noqa
                    return n, {"confirmed": True, "input": f"not_none_type_arg({args!r}, {m!r})", "why": f"raised {type(e).__name__}: {e}; the first argument not resolving to NoneType is {want!r}"}
                if got is not want:
                    return n, {"confirmed": True, "input": f"not_none_type_arg({args!r}, {m!r})", "why": f"returned {got!r}; the first argument whose resolution is not NoneType is {want!r}"}
    return n, None


def _compare(oid, unit, eng, code, spec, msg, witness_fn):
    prover = pysym.Prover(eng, 10000)
    code = [p for p in code if prover.sat(p.pc)[0] != z3.unsat]
    spec = [p for p in spec if prover.sat(p.pc)[0] != z3.unsat]
    if not code or not spec or any(q.kind != "return" for q in spec):
        return dict(id=oid, status="undecided", unit=unit, detail="no feasible path / the specification raises")
    bad, pairs = [], 0
    for p in code:
        for q in spec:
            pc = list(p.pc) + list(q.pc)
            s = prover.sat(pc)[0]
            if s == z3.unsat:
                continue
            if s != z3.sat:
                return dict(id=oid, status="undecided", unit=unit, detail="solver: unknown on a path pair")
            pairs += 1
            if p.kind != "return":
                bad.append(f"a path raises {p.value!r} where the specification returns")
                continue
            try:
                v = prover.prove("same", pc, eng.term(p.value) == eng.term(q.value))
            except pysym.NotInSubset as e:
                return dict(id=oid, status="undecided", unit=unit, detail=f"outside the verified subset: {e}")
            if v.status == "unknown":
                return dict(id=oid, status="undecided", unit=unit, detail=f"solver: {v.detail}")
            if v.status != "proved":
                bad.append(msg)
    # totality: the spec's path conditions cover every input, so every code path met at least one spec path
    w = None
    if bad:
        _, w = witness_fn()
    return dict(id=oid, status="refuted" if bad else "proved", unit=unit, detail="; ".join(sorted(set(bad))), paths=pairs, witness=w)


def verify_arity(pid, n, fn):
    import mashumaro.core.meta.helpers as H

    oid = f"{pid}.S18[not_none_type_arg]/first-non-none{{{n}}}"
    eng = pysym.Engine()
    items = [Tm(eng.fresh(f"a{i}")) for i in range(n)]
    rtp = Tm(eng.fresh("resolved_type_params"))
    ns = dict(H.__dict__)
    params = [a.arg for a in fn.args.posonlyargs + fn.args.args]
    if len(params) != 2:
        return dict(id=oid, status="undecided", unit=UNIT, detail=f"signature changed: {params}")
    spec_fn = ast.parse(_spec_src(n)).body[0]
    try:
        ex = pysym.Executor(eng, ns)
        ex.assume_hasattr = True
        code = ex.run(fn, {params[0]: LL("tuple", items), params[1]: rtp})
        ex2 = pysym.Executor(eng, ns)
        ex2.assume_hasattr = True
        spec = ex2.run(spec_fn, dict({f"a{i}": items[i] for i in range(n)}, resolved_type_params=rtp))
    except pysym.NotInSubset as e:
        return dict(id=oid, status="undecided", unit=UNIT, detail=f"outside the verified subset: {e}")
    return _compare(oid, UNIT, eng, code, spec,
                    "the result is not the first argument whose resolution (resolved_type_params.get(a, a); a itself without a map) is not NoneType", native_witness)


UNIT_OPT = "helpers.py:is_optional"


def native_witness_opt():
    """the real is_optional against the spec on real typing objects"""
    from typing import Optional, TypeVar, Union

    from mashumaro.core.meta.helpers import is_optional

    T, U = TypeVar("T"), TypeVar("U")
    NoneType = type(None)
    typs = [int, Optional[int], Union[None, int], Union[int, str], Union[int, str, None], Optional[T], Union[T, int], Union[T, U], Union[T, U, int], list[int], tuple[int, None], dict[None, int]]
    maps = [None, {}, {T: NoneType}, {T: int}, {T: NoneType, U: NoneType}, {U: NoneType}, {int: NoneType}]
    import typing

    n = 0
    for t in typs:
        for m in maps:
            n += 1
            args = typing.get_args(t)
            is_u = typing.get_origin(t) in (Union, __import__("types").UnionType)
            want = bool(is_u and len(args) == 2 and any((a if m is None else m.get(a, a)) is NoneType for a in args))
            try:
                got = is_optional(t, m) if m is not None else is_optional(t)
            except Exception as e:  # noqa
                return n, {"confirmed": True, "input": f"is_optional({t!r}, {m!r})", "why": f"raised {type(e).__name__}: {e}; expected {want!r}"}
            if got is not want:
                return n, {"confirmed": True, "input": f"is_optional({t!r}, {m!r})", "why": f"returned {got!r}; a union of two arguments one of which resolves to NoneType: {want!r}"}
    return n, None


def verify_is_optional(pid, n, fn):
    import mashumaro.core.meta.helpers as H

    oid = f"{pid}.S19[is_optional]/two-args-one-none{{{n}}}"
    eng = pysym.Engine()
    items = [Tm(eng.fresh(f"a{i}")) for i in range(n)]
    rtp = Tm(eng.fresh("resolved_type_params"))
    typ = Tm(eng.fresh("typ"))
    ns = dict(H.__dict__)
    params = [a.arg for a in fn.args.posonlyargs + fn.args.args]
    if len(params) != 2:
        return dict(id=oid, status="undecided", unit=UNIT_OPT, detail=f"signature changed: {params}")

    def call(ex, fnv, args, kw, node, st, ctx):
        o = fnv.o if isinstance(fnv, Ob) else None
        if o is H.get_args and len(args) == 1 and not kw and isinstance(args[0], Tm) and z3.eq(args[0].t, typ.t):
            return LL("tuple", items)  # trusted: typing.get_args(typ) is a tuple; here of n arbitrary members
        if o is len and len(args) == 1 and not kw and isinstance(args[0], LL):
            return Ob(len(args[0].items))
        return None

    spec_fn = ast.parse(_spec_src_opt(n)).body[0]
    try:
        code, spec = [], []
        for src, tgt, binds in ((fn, code, {params[0]: typ, params[1]: rtp}),
                                (spec_fn, spec, dict({f"a{i}": items[i] for i in range(n)}, typ=typ, resolved_type_params=rtp))):
            ex = pysym.Executor(eng, ns, hooks={"call": call})
            ex.assume_hasattr = True
            ex.nonraising.add(pysym._const_key(H.is_union))
            tgt.extend(ex.run(src, binds))
    except pysym.NotInSubset as e:
        return dict(id=oid, status="undecided", unit=UNIT_OPT, detail=f"outside the verified subset: {e}")
    return _compare(oid, UNIT_OPT, eng, code, spec,
                    "the result is not `is_union(typ) and typ has two arguments and one of them resolves to NoneType`", native_witness_opt)


RESOLVED_SRC = '''
from dataclasses import dataclass, field
from datetime import date
from decimal import Decimal
from typing import Dict, Generic, List, Optional, Tuple, TypeVar, Union
from mashumaro import DataClassDictMixin

T = TypeVar("T")

@dataclass
class Inner(DataClassDictMixin):
    a: int

@dataclass
class Base(DataClassDictMixin, Generic[T]):
    f1: Union[T, Inner]
    f2: Union[T, date]
    f3: Union[T, List[int]]
    f4: Union[date, T]
    f5: Union[Dict[str, date], T]
    f6: Union[T, Tuple[date, int]]
    f7: Union[T, Decimal]
    f8: Union[T, int]

@dataclass
class Spec(Base[None]):
    pass

@dataclass
class Mid(Base[T], Generic[T]):
    pass

@dataclass
class Spec2(Mid[None]):
    pass

@dataclass
class Plain(DataClassDictMixin):
    f1: Optional[Inner]
    f2: Optional[date]
    f3: Optional[List[int]]
    f4: Optional[date]
    f5: Optional[Dict[str, date]]
    f6: Optional[Tuple[date, int]]
    f7: Optional[Decimal]
    f8: Optional[int]

FULL = dict(f1=Inner(1), f2=date(2020, 1, 2), f3=[1, 2], f4=date(2021, 3, 4), f5={"k": date(2022, 5, 6)}, f6=(date(2023, 7, 8), 9), f7=Decimal("1.5"), f8=3)
'''


def verify_resolved_optional(pid):
    """S19 at its call sites (bounded, labelled so): a field `Union[T, X]` of a generic dataclass specialised with
    T = None IS `Optional[X]`; the builder decides nullability with is_optional(typ, resolved params).  For
    every field of the family and every choice of which single field is None (and all / none of them), the
    specialised class encodes and decodes exactly as the class that writes Optional[X] out."""
    from . import build

    oid = f"{pid}.S19[is_optional]/resolved-optional{{bounded}}"
    unit = "builder.py:_get_field_packer / _get_field_unpacker -> is_optional (bounded: family of 8 fields x 2 specialisations x 10 instances)"
    try:
        mod, _ = build.build_module(RESOLVED_SRC)
    except Exception as e:  # noqa
        return [dict(id=oid, status="refuted", unit=unit, detail=f"building the family raised {type(e).__name__}: {e}", bounded=True,
                     witness={"confirmed": True, "input": "class creation", "why": f"{type(e).__name__}: {e}", "source": RESOLVED_SRC})]
    names = sorted(mod.FULL)
    insts = [dict(mod.FULL)] + [dict(mod.FULL, **{n: None}) for n in names] + [{n: None for n in names}]
    n, w = 0, None
    for cls in (mod.Spec, mod.Spec2):
        for kw in insts:
            n += 1
            want = mod.Plain(**kw).to_dict()
            for what, f in (("to_dict", lambda: cls(**kw).to_dict()), ("from_dict", lambda: cls.from_dict(want).to_dict())):
                try:
                    got = f()
                    p = None if got == want else f"{cls.__name__}(...).{what}: got {got!r}, the class with Optional[X] written out gives {want!r}"
                except Exception as e:  # noqa
                    p = f"{cls.__name__} {what} raised {type(e).__name__}: {e}; the class with Optional[X] written out gives {want!r}"
                if p and w is None:
                    none = [k for k in names if kw[k] is None]
                    w = {"confirmed": True, "input": f"{cls.__name__}(**FULL with {none} set to None).{what}", "why": p[:500], "source": RESOLVED_SRC}
    return [dict(id=oid, status="refuted" if w else "proved", unit=unit, detail=(w or {}).get("why", ""), witness=w, bounded=True, backend="native (bounded)")]


def all_obligations(pid, path=HELPERS):
    fn = _fn(path)
    if fn is None:
        return [dict(id=f"{pid}.S18[not_none_type_arg]/first-non-none", status="undecided", unit=UNIT, detail="not_none_type_arg not found")]
    obs = [verify_arity(pid, n, fn) for n in ARITIES]
    fo = _fn(path, "is_optional")
    if fo is None:
        obs.append(dict(id=f"{pid}.S19[is_optional]/two-args-one-none", status="undecided", unit=UNIT_OPT, detail="is_optional not found"))
    else:
        obs += [verify_is_optional(pid, n, fo) for n in ARITIES]
        n2, w2 = native_witness_opt()
        obs.append(dict(id=f"{pid}.S19[is_optional]/native{{bounded}}", status="refuted" if w2 else "proved", unit=UNIT_OPT + f" (bounded: {n2} concrete calls)",
                        detail=(w2 or {}).get("why", ""), witness=w2, bounded=True, backend="native (bounded)"))
        obs += verify_resolved_optional(pid)
    n, w = native_witness()
    obs.append(dict(id=f"{pid}.S18[not_none_type_arg]/native{{bounded}}", status="refuted" if w else "proved", unit=UNIT + f" (bounded: {n} concrete calls)",
                    detail=(w or {}).get("why", ""), witness=w, bounded=True, backend="native (bounded)"))
    return obs


if __name__ == "__main__":
    import sys

    for o in all_obligations("C11", *(sys.argv[1:2])):
        print(o["status"], o["id"], o.get("paths"), o["detail"], o.get("witness"))

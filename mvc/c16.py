"""C16: schema-supplied strings are data, never code.

(S) kind checker - a refinement-type check over the emitter modules (L-src, re-read on every run):
every hole of every f-string (and every operand of +, %, .join, .format string building) that can
reach generated source text gets a kind
      Lit | Quoted | Ident | Expr | TypeRef | Flag | Data
from sidecar contracts (kinds of parameters / attributes / producer functions) plus intra-procedural
data flow for locals. One obligation per hole: kind != Data and the hole is classifiable. `Quoted`
rests on the contract  ast.literal_eval(repr(s)) == s  for str/bytes (A6).
(G) confirmation on the real generator: for an adversarial alphabet of strings at every schema
position the class builds, the generated text parses, the string appears exactly as a constant of the
generated AST, and (de)serialization uses exactly that string (bounded evidence + replay of a failing
hole).
"""
from __future__ import annotations

import ast
import os
import time

from . import build, g4, harvest, runner

REPO = "/repo"
MODULES = ["mashumaro/core/meta/code/builder.py", "mashumaro/core/meta/types/pack.py", "mashumaro/core/meta/types/unpack.py",
           "mashumaro/core/meta/types/common.py", "mashumaro/codecs/_builder.py"]

# ---- sidecar kind contracts -------------------------------------------------------------------
# producers: calling one of these yields generated-code-safe text (their own bodies are checked as
# emitters where they build text; type_name/clean_id are TypeRef/Ident producers by contract)
SAFE_CALLS = {
    "type_name": "TypeRef", "clean_id": "Ident", "random_hex": "Ident", "get_type_name_identifier": "TypeRef",
    "get_pack_method_flags": "Flag", "get_unpack_method_flags": "Flag", "get_pack_method_default_flag_values": "Flag",
    "get_unpack_method_default_flag_values": "Flag", "_generate_method_name": "Ident", "_generate_method_args": "Flag",
    "_get_variant_method_call": "Expr", "_get_variants_map": "Expr", "_get_variant_names_iterable": "Expr", "_get_variants_attr": "Ident",
    "_get_call_expr": "Expr", "expr_or_maybe_none": "Expr", "inner_expr": "Expr", "get_field_default_literal": "Expr",
    "get_pack_method_name": "Ident", "get_unpack_method_name": "Ident", "from_public": "Ident", "_get_encoder_kwargs": "Quoted",
    "get_method_prefix": "Lit", "repr": "Quoted", "hash_type_args": "Ident", "_typing_name": "TypeRef", "get_generic_name": "TypeRef",
    "_get_args_str": "TypeRef", "_get_literal_values_str": "Quoted", "_make_sequence_expression": "Expr", "_make_mapping_expression": "Expr",
    "pack_union": "Expr", "pack_literal": "Expr", "pack_tuple": "Expr", "pack_named_tuple": "Expr", "pack_typed_dict": "Expr",
    "unpack_tuple": "Expr", "unpack_named_tuple": "Expr", "unpack_typed_dict": "Expr", "build": "Expr", "_pack_annotated_serializable_type": "Expr",
    "_unpack_annotated_serializable_type": "Expr", "_pack_with_annotated_serialization_strategy": "Expr", "_unpack_with_annotated_serialization_strategy": "Expr",
    "str": "IntStr", "len": "IntStr", "id": "IntStr",
}
REGISTRY_GET = {"PackerRegistry", "UnpackerRegistry"}
# attribute chains (by last two components) with a safe kind
SAFE_ATTRS = {
    "spec.expression": "Expr", "spec.cls_attrs_name": "Ident", "spec.self_attrs_name": "Ident", "spec.attrs_registry_name": "Ident",
    "self.format_name": "Ident", "builder.format_name": "Ident", "method_name.public": "Ident", "field_ctx.name": "Ident",
    "attrs.__name__": "Ident", "cls.__name__": "ClassName", "type_arg.__name__": "ClassName", "origin_type.__name__": "ClassName",
    "lit_type.__name__": "ClassName", "literal_value.name": "MemberName", "field_ctx.packer": "Expr", "field_ctx.unpacker": "Expr",
    "serialization_method.expression": "Expr", "deserialization_method.expression": "Expr", "self.method_name": "Ident", "field_block.fname": "Ident",
    "self._PREFIX": "Lit", "self._SUFFIX": "Lit", "cls._PREFIX": "Lit", "cls._SUFFIX": "Lit", "e.name": "Ident",
}
# names (parameters / loop variables / locals) with a declared kind; Data names must be Quoted
NAME_KINDS = {
    # identifiers
    "fname": "Ident", "field_name": "Ident", "method_name": "Ident", "variant_method_name": "Ident", "cache_name": "Ident", "attrs": "Ident",
    "overridden_fn": "Ident", "variants_attr": "Ident", "field": "Ident", "name": "Ident", "kw_arg": "Ident", "f": "Ident", "n": "Ident",
    "flag": "Ident", "method": "Ident", "prefix": "Lit", "exc_to_catch": "Lit", "idx": "IntStr", "_arg_idx": "IntStr", "arg_num": "IntStr",
    "enum_type_name": "TypeRef", "typ_name": "TypeRef", "field_type": "TypeRef", "field_type_name": "TypeRef", "variants_type_expr": "TypeRef",
    "packer_arg_type_name": "Ident", "default_type": "TypeRef", "self_cls_name": "TypeRef", "datetime_parser": "Lit", "suffix": "Lit",
    # expressions produced by the registries / other emitters
    "packer": "Expr", "unpacker": "Expr", "packed_value": "Expr", "unpacked_value": "Expr", "ke": "Expr", "ve": "Expr", "ie": "Expr", "uv": "Expr", "pv": "Expr",
    "expr": "Expr", "u_expr": "Expr", "p_expr": "Expr", "condition": "Expr", "comp_expr": "Expr", "default_literal": "Expr", "value": "Expr", "v": "Expr",
    "fallback_unpacker": "Expr", "variant_method_call": "Expr", "variant_tagger_expr": "Expr", "variants_map": "Expr", "variants": "Expr", "chosen_cls": "Expr",
    "cls_inst": "Expr", "return_statement": "Lit", "packer_args": "Flag", "unpacker_args": "Flag", "unpacker_args_s": "Flag", "method_args": "Flag",
    "method_flags": "Flag", "default_kwargs": "Flag", "kwargs": "Expr", "pre_serialize_args": "Lit", "encoder_options": "Flag", "pluggable_flags_str": "Flag",
    "args_str": "TypeRef", "packer_arg_type_check": "Expr", "union_packer": "Expr", "unpacked_type_name": "TypeRef", "_unpack": "TypeRef",
    "line": "Expr", "code": "Expr", "packed": "Expr", "unpacker_block": "Expr", "new_expr": "Expr", "format_name": "Ident",
    "extra_args_str": "Flag", "extra_args": "Flag", "type_arg_names": "TypeRef",
    # schema-supplied data: only safe when quoted
    "alias": "Data", "fname_or_alias": "Data", "key": "Data", "k": "Data", "literal_value": "Data", "allowed_keys_str": "QuotedList",
}
DATA_ATTRS = {"discriminator.field": "Data", "self.discriminator.field": "Data"}
ASSUMED_IDENT = {"ClassName": "class names are Python identifiers (a class created with a non-identifier name is outside the property's positions)",
                 "MemberName": "enum member names used in Literal[...] are identifiers"}

EMIT_SINKS = {"add_line", "append", "extend", "indent"}
BRACE_FREE = {"Lit", "Ident", "Flag", "IntStr", "ClassName", "MemberName"}  # kinds whose text cannot contain '{', '}' or '%'



def _last2(node):
    parts = []
    while isinstance(node, ast.Attribute):
        parts.append(node.attr)
        node = node.value
    if isinstance(node, ast.Name):
        parts.append(node.id)
    parts.reverse()
    return ".".join(parts[-2:]), ".".join(parts)


class FnChecker:
    def __init__(self, modpath, fn, src):
        self.modpath = modpath
        self.fn = fn
        self.src = src
        self.assigns = {}
        for n in ast.walk(fn):
            if isinstance(n, ast.Assign):
                for t in n.targets:
                    if isinstance(t, ast.Name):
                        self.assigns.setdefault(t.id, []).append(n.value)
            elif isinstance(n, ast.AugAssign) and isinstance(n.target, ast.Name):
                self.assigns.setdefault(n.target.id, []).append(n.value)
            elif isinstance(n, ast.AnnAssign) and isinstance(n.target, ast.Name) and n.value is not None:
                self.assigns.setdefault(n.target.id, []).append(n.value)
        self.params = {a.arg for a in fn.args.args + fn.args.kwonlyargs}
        self.modconsts = set()
        # context contracts: loop variables of comprehensions over declared (non-schema) sources
        self.overrides = {}
        for n in ast.walk(fn):
            if isinstance(n, (ast.GeneratorExp, ast.ListComp)):
                it = ast.unparse(n.generators[0].iter)
                kinds = None
                if it == "self.encoder_kwargs.items()":
                    kinds = {"k": "Ident", "v": "Flag"}  # encoder keyword names are declared by the mixins
                elif it.startswith("zip(fields, packers)"):
                    kinds = {"key": "Ident", "value": "Expr"}  # NamedTuple field names are identifiers
                elif it == "fields":
                    kinds = {"name": "Ident"}
                if kinds:
                    for x in ast.walk(n.elt):
                        if isinstance(x, ast.Name) and x.id in kinds:
                            self.overrides[id(x)] = kinds[x.id]

    def kind(self, e, depth=0):
        """kind of a string-valued expression"""
        if depth > 6:
            return "Unknown"
        if isinstance(e, ast.Constant):
            return "Lit"
        if isinstance(e, ast.JoinedStr):
            ks = [self.kind(v, depth + 1) for v in e.values]
            return self._join(ks)
        if isinstance(e, ast.FormattedValue):
            if e.conversion == ord("r"):
                return "Quoted"
            return self.kind(e.value, depth + 1)
        if isinstance(e, ast.IfExp):
            return self._join([self.kind(e.body, depth + 1), self.kind(e.orelse, depth + 1)])
        if isinstance(e, ast.BoolOp):
            return self._join([self.kind(v, depth + 1) for v in e.values])
        if isinstance(e, ast.BinOp) and isinstance(e.op, (ast.Add, ast.Mod)):
            return self._join([self.kind(e.left, depth + 1), self.kind(e.right, depth + 1)])
        if isinstance(e, ast.Tuple):
            return self._join([self.kind(v, depth + 1) for v in e.elts]) if e.elts else "Lit"
        if isinstance(e, ast.Call):
            f = e.func
            if isinstance(f, ast.Attribute):
                if f.attr == "join":
                    arg = e.args[0] if e.args else None
                    return self._join([self.kind(f.value, depth + 1), self.elem_kind(arg, depth + 1)])
                if f.attr == "format":
                    return self._join([self.kind(f.value, depth + 1)] + [self.kind(a, depth + 1) for a in e.args])
                if f.attr == "get" and isinstance(f.value, ast.Name) and f.value.id in REGISTRY_GET:
                    return "Expr"
                if f.attr in ("as_text",):
                    return "Expr"
                if f.attr in SAFE_CALLS:
                    return SAFE_CALLS[f.attr]
                if f.attr in ("lower", "strip", "rstrip", "lstrip", "replace", "upper"):
                    return self.kind(f.value, depth + 1)
            if isinstance(f, ast.Name):
                if f.id in SAFE_CALLS:
                    k = SAFE_CALLS[f.id]
                    if k == "IntStr":
                        return "IntStr"
                    return k
                if f.id in ("filter", "map", "sorted", "list", "tuple"):
                    return self.elem_kind(e, depth + 1)
            return "Unknown"
        if isinstance(e, ast.Attribute):
            if ast.unparse(e) == "uuid.uuid4().hex":
                return "Ident"
            l2, full = _last2(e)
            if full in DATA_ATTRS or l2 in DATA_ATTRS:
                return "Data"
            if l2 in SAFE_ATTRS:
                return SAFE_ATTRS[l2]
            if e.attr == "__name__":
                return "ClassName"
            return "Unknown"
        if isinstance(e, ast.Subscript):
            # e.g. value[0] of encoder kwargs tuples, packers[i]
            if isinstance(e.value, ast.Name):
                ek = self.elem_kind(e.value, depth + 1)
                return ek if ek != "Unknown" else self.kind(e.value, depth + 1)
            return "Unknown"
        if isinstance(e, ast.Name):
            n = e.id
            if n in self.modconsts:
                return "Lit"
            over = self.overrides.get(id(e))
            if over:
                return over
            if n in NAME_KINDS:
                return NAME_KINDS[n]
            if n in self.assigns and n not in self.params:
                ks = [self.kind(v, depth + 1) for v in self.assigns[n]]
                return self._join(ks)
            return "Unknown"
        return "Unknown"

    def template_kind(self, e, depth=0):
        """Lit iff the expression is a string literal (or a local/module constant bound only to literals, or a
        concatenation of such): text that may safely be re-read as a format template"""
        if depth > 6:
            return "Unknown"
        if isinstance(e, ast.Constant) and isinstance(e.value, str):
            return "Lit"
        if isinstance(e, ast.JoinedStr):
            # holes of brace-free kinds (identifiers, declared flag lists, integers) cannot introduce replacement fields
            ok = all(isinstance(v, ast.Constant) or self.kind(v, depth + 1) in BRACE_FREE for v in e.values)
            return "Lit" if ok else "Template"
        if isinstance(e, ast.BinOp) and isinstance(e.op, ast.Add):
            return "Lit" if self.template_kind(e.left, depth + 1) == "Lit" and self.template_kind(e.right, depth + 1) == "Lit" else "Template"
        if isinstance(e, ast.Name):
            if e.id in self.modconsts:
                return "Lit"
            if e.id in self.assigns and e.id not in self.params:
                return "Lit" if all(self.template_kind(v, depth + 1) == "Lit" for v in self.assigns[e.id]) else "Template"
        return "Template"

    def elem_kind(self, e, depth):
        """kind of the elements of an iterable of strings"""
        if e is None:
            return "Unknown"
        if isinstance(e, (ast.List, ast.Tuple, ast.Set)):
            return self._join([self.kind(v, depth + 1) for v in e.elts]) if e.elts else "Lit"
        if isinstance(e, (ast.GeneratorExp, ast.ListComp)):
            return self.kind(e.elt, depth + 1)
        if isinstance(e, ast.Call) and isinstance(e.func, ast.Name) and e.func.id in ("filter", "map", "sorted", "list", "tuple"):
            if e.func.id == "map" and e.args and isinstance(e.args[0], ast.Name) and e.args[0].id == "repr":
                return "Quoted"
            if e.func.id == "map" and e.args and isinstance(e.args[0], ast.Attribute) and e.args[0].attr in SAFE_CALLS:
                return SAFE_CALLS[e.args[0].attr]
            return self.elem_kind(e.args[-1], depth + 1)
        if isinstance(e, ast.Name):
            n = e.id
            known = {"extra_args": "Flag", "pluggable_flags": "Flag", "args": "Expr", "packers": "Expr", "unpackers": "Expr", "variant_names": "Expr", "packer_arg_type_names": "Ident",
                     "kv": "Expr", "unpacker_args": "Flag", "lines": "Expr", "method_args": "Flag"}
            if n in known:
                return known[n]
            if n in self.assigns:
                return self._join([self.elem_kind(v, depth + 1) for v in self.assigns[n]])
            return "Unknown"
        if isinstance(e, ast.Call) and isinstance(e.func, ast.Name) and e.func.id == "zip":
            return "Unknown"
        return "Unknown"

    @staticmethod
    def _join(ks):
        ks = [k for k in ks if k]
        if "Data" in ks:
            return "Data"
        if "Unknown" in ks:
            return "Unknown"
        order = ["Expr", "TypeRef", "Flag", "Ident", "ClassName", "MemberName", "Quoted", "QuotedList", "IntStr", "Lit"]
        for o in order:
            if o in ks:
                return o
        return "Lit"


def _in_raise_or_message(fn, node, parents):
    p = parents.get(id(node))
    while p is not None:
        if isinstance(p, ast.Raise):
            return True
        if isinstance(p, ast.Call) and isinstance(p.func, ast.Name) and p.func.id in ("print", "warn"):
            return True
        if isinstance(p, ast.Call) and isinstance(p.func, ast.Attribute) and p.func.attr in ("warn",):
            return True
        p = parents.get(id(p))
    return False


def scan_module(relpath):
    path = os.path.join(REPO, relpath)
    src = open(path).read()
    mod = ast.parse(src)
    holes = []
    for fn in [n for n in ast.walk(mod) if isinstance(n, (ast.FunctionDef,))]:
        parents = {}
        for n in ast.walk(fn):
            for c in ast.iter_child_nodes(n):
                parents[id(c)] = n
        chk = FnChecker(relpath, fn, src)
        chk.modconsts = {t.id for st in mod.body if isinstance(st, ast.Assign) and isinstance(st.value, ast.Constant) and isinstance(st.value.value, str)
                         for t in st.targets if isinstance(t, ast.Name)}
        nested = {id(x) for sub in ast.walk(fn) if isinstance(sub, ast.FunctionDef) and sub is not fn for x in ast.walk(sub)}
        for n in ast.walk(fn):
            if id(n) in nested:
                continue
            if isinstance(n, ast.JoinedStr):
                if _in_raise_or_message(fn, n, parents):
                    continue
                if not _reaches_code(fn, n, parents):
                    continue
                for v in n.values:
                    if isinstance(v, ast.FormattedValue):
                        k = chk.kind(v)
                        holes.append(dict(module=relpath, function=fn.name, line=v.lineno, hole=ast.unparse(v.value) + ("!r" if v.conversion == ord("r") else ""), kind=k))
            elif (isinstance(n, ast.Call) and isinstance(n.func, ast.Attribute) and n.func.attr in ("format", "format_map") and _reaches_code(fn, n, parents)
                  and not _in_raise_or_message(fn, n, parents)):
                # second-level interpolation: the template of str.format is re-read for {..}; it must be a pure
                # literal (kind Lit), never text that already contains interpolated (schema-derived) material
                tk = chk.template_kind(n.func.value)
                holes.append(dict(module=relpath, function=fn.name, line=n.lineno, hole="<template of .format> " + ast.unparse(n.func.value)[:60], kind="Lit" if tk == "Lit" else "Template"))
            elif isinstance(n, ast.BinOp) and isinstance(n.op, ast.Mod) and _stringy(n.left) and _reaches_code(fn, n, parents) and not _in_raise_or_message(fn, n, parents) \
                    and chk.template_kind(n.left) != "Lit":
                holes.append(dict(module=relpath, function=fn.name, line=n.lineno, hole="<template of %> " + ast.unparse(n.left)[:60], kind="Template"))
            elif isinstance(n, ast.BinOp) and isinstance(n.op, (ast.Add, ast.Mod)) and _stringy(n) and not isinstance(parents.get(id(n)), ast.BinOp):
                if _in_raise_or_message(fn, n, parents) or not _reaches_code(fn, n, parents):
                    continue
                k = chk.kind(n)
                holes.append(dict(module=relpath, function=fn.name, line=n.lineno, hole=ast.unparse(n)[:80], kind=k))
    return holes


def _stringy(n):
    for x in ast.walk(n):
        if isinstance(x, ast.Constant) and isinstance(x.value, str):
            return True
        if isinstance(x, ast.JoinedStr):
            return True
    return False


def _reaches_code(fn, node, parents):
    """f-strings that are emitted (argument of add_line/append/indent/extend), returned, assigned
    to a name, passed as expression=..., or yielded reach generated text (over-approximation)"""
    p = parents.get(id(node))
    while p is not None:
        if isinstance(p, (ast.Return, ast.Assign, ast.AugAssign, ast.AnnAssign, ast.Yield, ast.With, ast.withitem)):
            return True
        if isinstance(p, ast.Call):
            f = p.func
            if isinstance(f, ast.Attribute) and f.attr in EMIT_SINKS | {"join", "format", "copy", "insert"}:
                return True
            if isinstance(f, ast.Name) and f.id in ("TypeMatchEligibleExpression", "ExpressionWrapper", "exec", "InternalMethodName", "cls"):
                return True
            if any(isinstance(k, ast.keyword) and k.arg == "expression" for k in p.keywords):
                return True
        if isinstance(p, ast.FunctionDef):
            return False
        p = parents.get(id(p))
    return False


# ---------------------------------------------------------------------------------------------
# (G) alphabet confirmation on the real generator
# ---------------------------------------------------------------------------------------------
ALPHABET = ["plain", "it's", 'say "hi"', "back\\slash", "new\nline", "tab\there", "{brace}", "%s %d", "ünï-cødé ✓", "'; import os; os._exit(7); '",
            "\\'", "a'b\"c\\", "", " ", "None", "{0}", "__class__", "x'] = __import__('builtins').__dict__.setdefault('C16_PWNED', 1); kwargs['x"]

POSITIONS = ["meta_alias", "annotated_alias", "config_alias", "typeddict_key", "typeddict_key_nested", "discriminator_field", "literal_str", "literal_bytes", "enum_value", "forbid_extra_keys"]


def position_source(pos, s):
    r = repr(s)
    src = [g4.PRELUDE, "from mashumaro.types import Alias, Discriminator", f"S = {r}"]
    if pos == "meta_alias":
        src += ["@dataclass", "class C(DataClassDictMixin):", "    x: int = field(metadata={'alias': S})", "    class Config(BaseConfig):", "        serialize_by_alias = True",
                "EXPECT_OUT = {S: 1}", "INST = C(1)"]
    elif pos == "annotated_alias":
        src += ["@dataclass", "class C(DataClassDictMixin):", "    x: Annotated[int, Alias(S)]", "    class Config(BaseConfig):", "        serialize_by_alias = True",
                "EXPECT_OUT = {S: 1}", "INST = C(1)"]
    elif pos == "config_alias":
        src += ["@dataclass", "class C(DataClassDictMixin):", "    x: int", "    class Config(BaseConfig):", "        serialize_by_alias = True", "        aliases = {'x': S}",
                "        allow_deserialization_not_by_alias = True", "EXPECT_OUT = {S: 1}", "INST = C(1)"]
    elif pos == "forbid_extra_keys":
        src += ["@dataclass", "class C(DataClassDictMixin):", "    x: int = field(metadata={'alias': S})", "    class Config(BaseConfig):", "        serialize_by_alias = True",
                "        forbid_extra_keys = True", "EXPECT_OUT = {S: 1}", "INST = C(1)"]
    elif pos == "typeddict_key":
        src += ["TD = TypedDict('TD', {S: int, 'other': NotRequired[int]})", "@dataclass", "class C(DataClassDictMixin):", "    x: TD", "EXPECT_OUT = {'x': {S: 1}}", "INST = C({S: 1})"]
    elif pos == "typeddict_key_nested":
        # the key text travels inside the *expression* handed to the value type's (un)packer
        src += ["TD = TypedDict('TD', {S: collections.ChainMap[str, int], 'l': NotRequired[List[Optional[int]]], 'd': NotRequired[Dict[str, Tuple[int, ...]]]})",
                "@dataclass", "class C(DataClassDictMixin):", "    x: TD", "EXPECT_OUT = {'x': {S: [{'a': 1}]}}", "INST = C({S: collections.ChainMap({'a': 1})})"]
    elif pos == "discriminator_field":
        src += ["@dataclass", "class C(DataClassDictMixin):", "    a: int = 0", "    class Config(BaseConfig):", "        discriminator = Discriminator(field=S, include_subtypes=True)",
                "@dataclass", "class K(C):", "    b: int = 1", "setattr(K, S, 'k') if S.isidentifier() else type.__setattr__(K, S, 'k')",
                "EXPECT_OUT = None", "INST = None", "DISC = True"]
    elif pos == "literal_str":
        src += ["@dataclass", "class C(DataClassDictMixin):", "    x: Literal[S, 'zz']" if False else f"    x: Literal[{r}, 'zz']", "EXPECT_OUT = {'x': S}", "INST = C(S)"]
    elif pos == "literal_bytes":
        b = s.encode("utf-8")
        src += ["@dataclass", "class C(DataClassDictMixin):", f"    x: Literal[{b!r}, 'zz']", f"import base64\nEXPECT_OUT = {{'x': base64.encodebytes({b!r}).decode()}}", f"INST = C({b!r})"]
    elif pos == "enum_value":
        src += [f"class EV(enum.Enum):\n    M = {r}", "@dataclass", "class C(DataClassDictMixin):", "    x: EV", "    y: Literal[EV.M]", "EXPECT_OUT = {'x': S, 'y': S}", "INST = C(EV.M, EV.M)"]
    return "\n".join(src) + "\n"


def fresh_name_obligations(pid):
    """FRESH-NAME: every helper the emitters define is stored under a name that contains a fresh token (random_hex()).  The rest of
    such a name is made of sanitised schema text (class name, field name, clean_id(...)), and sanitising is not injective ("it's" and
    'it"s' give one identifier): a name without the fresh token lets two different types of one class share - or overwrite - one helper,
    i.e. a schema-supplied string would select code."""
    obs = []
    for m in MODULES:
        try:
            tree = ast.parse(open(f"{REPO}/{m}").read())
        except OSError:
            continue
        for n in ast.walk(tree):
            if not isinstance(n, ast.JoinedStr) or not n.values:
                continue
            first = n.values[0]
            if not (isinstance(first, ast.Constant) and isinstance(first.value, str) and first.value.startswith(("__pack_", "__unpack_"))):
                continue
            fresh = any(isinstance(v, ast.FormattedValue) and any(isinstance(c, ast.Call) and isinstance(c.func, ast.Name) and c.func.id == "random_hex" for c in ast.walk(v))
                        for v in n.values)
            oid = f"{pid}.S[{m.split('/')[-1]}:{first.value[:40]}@{n.lineno}]/fresh_name"
            ob = dict(id=oid, status="proved" if fresh else "refuted", unit=f"{m}:{n.lineno}", sample=ast.unparse(n)[:160])
            if not fresh:
                ob["detail"] = f"helper name template {ast.unparse(n)[:160]} has no fresh token: distinct types whose sanitised text coincides share one helper"
                ob["witness"] = _pair_witness()
            obs.append(ob)
    if not obs:
        obs.append(dict(id=f"{pid}.S[fresh_name]/cover", status="error", detail="no helper name template found in the emitter modules"))
    return obs


PAIRS = [("it's", 'it"s'), ("a b", "a-b"), ("{x}", "%x%"), ("n\n", "n\t")]


def _pair_source(s1, s2):
    return "\n".join([g4.PRELUDE, f"S1 = {s1!r}", f"S2 = {s2!r}", "@dataclass", "class C(DataClassDictMixin):", f"    a: Literal[{s1!r}]", f"    b: Literal[{s2!r}]",
                      f"    c: Optional[Literal[{s2!r}, 1]] = None", "TD = TypedDict('TD', {'k': Literal[" + repr(s1) + "], 'l': Literal[" + repr(s2) + "]})",
                      "@dataclass", "class D(DataClassDictMixin):", "    t: TD"]) + "\n"


def _pair_problems(s1, s2):
    src = _pair_source(s1, s2)
    probs = []
    mod, _ = build.build_module(src)
    try:
        for label, call, want in (("C", lambda: mod.C.from_dict({"a": s1, "b": s2}), lambda: mod.C(s1, s2)),
                                  ("D", lambda: mod.D.from_dict({"t": {"k": s1, "l": s2}}), lambda: mod.D({"k": s1, "l": s2}))):
            try:
                got = call()
                if got != want():
                    probs.append(f"{label}: decoded {got!r}")
            except Exception as e:  # noqa
                probs.append(f"{label}: the fields' own literal values are rejected: {type(e).__name__}: {str(e)[:120]}")
        try:
            got = mod.C.from_dict({"a": s1, "b": s1})
            probs.append(f"C: field b: Literal[{s2!r}] accepted {s1!r} ({got!r})")
        except Exception:  # noqa
            pass
    finally:
        build.drop_module(mod)
    return src, probs


def _pair_witness():
    for s1, s2 in PAIRS:
        try:
            src, probs = _pair_problems(s1, s2)
        except Exception:  # noqa
            continue
        if probs:
            return {"confirmed": True, "source": src, "input": f"C.from_dict({{'a': {s1!r}, 'b': {s2!r}}})", "why": probs[0]}
    return None


def pair_task(payload):
    pid, s1, s2 = payload
    try:
        src, probs = _pair_problems(s1, s2)
    except Exception as e:  # noqa
        return {"obligations": [dict(id=f"{pid}.G[literal_pair:{s1!r}|{s2!r}]/builds", status="refuted", detail=f"{type(e).__name__}: {e}"[:300],
                                     witness={"confirmed": True, "source": _pair_source(s1, s2), "why": f"{type(e).__name__}: {e}"[:300]})]}
    return {"obligations": [dict(id=f"{pid}.G[literal_pair:{s1!r}|{s2!r}]/data", status="proved" if not probs else "refuted", unit="two Literal types whose sanitised text coincides, in one class",
                                 detail="; ".join(probs)[:500], bounded=True, witness=({"confirmed": True, "source": src, "why": probs[0]} if probs else None))]}


def alphabet_task(payload):
    pid, pos, s = payload
    label = f"[{pos}:{s!r}]"
    src = position_source(pos, s)
    import builtins

    builtins.__dict__.pop("C16_PWNED", None)
    try:
        mod, recs = build.build_module(src)
    except Exception as e:
        return {"obligations": [dict(id=f"{pid}.G{label}/builds", status="refuted", unit="class creation", detail=f"{type(e).__name__}: {e}"[:300],
                                     witness={"confirmed": True, "source": src, "why": f"class creation with this string raises {type(e).__name__}: {e}"[:300]})]}
    probs = []
    try:
        for r in recs:
            try:
                ast.parse(r.text)
            except SyntaxError as e:
                probs.append(f"generated text does not parse: {e}")
        if getattr(mod, "DISC", False):
            try:
                got = mod.C.from_dict({s: "k", "b": 5})
                if type(got).__name__ != "K":
                    probs.append(f"discriminator field {s!r}: got {type(got).__name__}")
            except Exception as e:  # noqa
                probs.append(f"discriminator field {s!r}: {type(e).__name__}: {e}"[:200])
        else:
            try:
                out = mod.INST.to_dict()
                if out != mod.EXPECT_OUT:
                    probs.append(f"to_dict() = {out!r}, expected {mod.EXPECT_OUT!r}")
                back = mod.C.from_dict(mod.EXPECT_OUT)
                if back != mod.INST:
                    probs.append(f"from_dict({mod.EXPECT_OUT!r}) = {back!r}")
            except Exception as e:  # noqa
                probs.append(f"{type(e).__name__}: {e}"[:200])
        if "C16_PWNED" in builtins.__dict__:
            probs.append("code embedded in the string was executed")
        return {"obligations": [dict(id=f"{pid}.G{label}/data", status="proved" if not probs else "refuted", unit=f"position {pos}", detail="; ".join(probs)[:500],
                                     witness=({"confirmed": True, "source": src, "why": probs[0]} if probs else None))]}
    finally:
        builtins.__dict__.pop("C16_PWNED", None)
        build.drop_module(mod)


def check(pid, tier):
    t0 = time.time()
    obs = []
    nholes = 0
    assumed = set()
    for m in MODULES:
        for h in scan_module(m):
            nholes += 1
            oid = f"{pid}.S[{h['module'].split('/')[-1]}:{h['function']}:{h['hole'][:60]}@{h['line']}]/kind"
            k = h["kind"]
            if k in ASSUMED_IDENT:
                assumed.add(ASSUMED_IDENT[k])
            if k == "Data":
                obs.append(dict(id=oid, status="refuted", unit=f"{h['module']}:{h['line']}", detail=f"schema-supplied string {h['hole']!r} is spliced unquoted into generated code",
                                witness=_hole_witness(h)))
            elif k == "Template":
                obs.append(dict(id=oid, status="refuted", unit=f"{h['module']}:{h['line']}",
                                detail=f"{h['hole']}: text that already contains interpolated material is used as a format template, so braces / percent signs inside schema-supplied strings are re-interpreted",
                                witness=_hole_witness(h)))
            elif k == "Unknown":
                obs.append(dict(id=oid, status="refuted", unit=f"{h['module']}:{h['line']}", detail=f"hole {h['hole']!r} has no kind contract and no safe data flow (unclassified: fails closed)",
                                witness=_hole_witness(h)))
            else:
                obs.append(dict(id=oid, status="proved", unit=f"{h['module']}:{h['line']}", sample=f"{h['hole']} : {k}"))
    alphabet = list(ALPHABET)
    if tier == "thorough":
        atoms = ["'", '"', "\\", "\n", "{", "}", "%", "{0}", "{m}", "%(a)s", "\x00", "\u2028", "'" * 3, '"' * 3, "#", "\r", "$"]
        for a_ in atoms:
            for b_ in atoms:
                if a_ != b_:
                    alphabet.append(a_ + "k" + b_)
        alphabet = list(dict.fromkeys(alphabet))
    payloads = [(pid, pos, s) for pos in POSITIONS for s in alphabet
                # Python itself refuses a class attribute named __class__ holding a string (type.__setattr__ raises), so
                # that name cannot be a discriminator field of any hierarchy: not a schema mashumaro can be given
                if not (pos == "discriminator_field" and s == "__class__")]
    obs += fresh_name_obligations(pid)
    res = runner.run_pool(alphabet_task, payloads, chunks=4) + runner.run_pool(pair_task, [(pid, a_, b_) for a_, b_ in PAIRS], chunks=1)
    crashes = []
    nb = 0
    for r in res:
        if "crash" in r:
            crashes.append(r["crash"] + " @ " + r["payload"] + "\n" + r["trace"][-500:])
            continue
        for o in r["obligations"]:
            nb += 1
            if o["status"] != "proved":
                obs.append(o)
    return runner.finish(
        pid, tier, obs, t0,
        technique="kind checker (refinement types for strings: Lit/Quoted/Ident/Expr/TypeRef/Flag/Data) over every f-string hole and string-building operand of the emitter modules, from sidecar kind contracts + intra-procedural data flow, re-read from /repo on every run; alphabet confirmation on the real generator as bounded evidence",
        units=nholes,
        extra_cov={"holes": nholes, "alphabet_cases": nb, "positions": POSITIONS,
                   "explanation": "one obligation per hole (kind is not Data and is classifiable); alphabet cases (bounded) are reported only when they fail"},
        trusted={"A6: ast.literal_eval(repr(s)) == s for str/bytes (Quoted kind)", "the sidecar kind table (parameter/attribute/producer kinds) is a contract annotation; unknown holes fail closed"} | assumed,
        functions=[m for m in MODULES],
        bounded=[{"what": "adversarial alphabet x schema positions on the real generator", "cases": nb, "note": "bounded stand-in, not counted as proved"}],
        crashes=crashes,
    )


def _hole_witness(h):
    """replay: try the alphabet at every position and report the first failing case"""
    for pos in POSITIONS:
        for s in ("it's", "back\\slash", "new\nline"):
            r = alphabet_task(("C16", pos, s))
            for o in r.get("obligations", []):
                if o["status"] != "proved":
                    w = dict(o.get("witness") or {})
                    w["hole"] = h
                    return w
    return None

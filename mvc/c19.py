"""C19: hooks run exactly once per instance, in order, through every entry point.

Generated to_*/from_* units of classes that declare hooks are executed symbolically with ghost
counters on the hook calls. Obligations on every returning path:
  to:   __pre_serialize__ called exactly once, first (every field is read from ITS result);
        __post_serialize__ called exactly once, on the finished mapping; its result is what is
        returned (wrapped by the format encoder); context= passed, unchanged, iff the class opted in;
        nested dataclass positions (also typing.Self) receive context iff both classes opted in
  from: __pre_deserialize__ applied once before any key is read; __post_deserialize__ applied once
        to the constructed instance and its result returned (FROM_SPEC with hooks)
Union helpers on the codec path call member serializers speculatively: each attempt runs the
instance's pre hook, so the number of attempts on a returning path must be 1.
"""
from __future__ import annotations

import ast
import dataclasses
import itertools
import time
import typing

import z3

from . import build, g1, g2, g4, g7, harvest, pysym, ref, runner, units
from .pysym import Call, Ob, Tm, _const_key

BASES = {
    "dict": ("from mashumaro import DataClassDictMixin as MIX", "MIX", [("__mashumaro_to_dict__", "__mashumaro_from_dict__")]),
    "orjson": ("from mashumaro.mixins.orjson import DataClassORJSONMixin as MIX", "MIX",
               [("__mashumaro_to_dict__", "__mashumaro_from_dict__"), ("__mashumaro_to_jsonb__", "__mashumaro_from_json__"),
                ("__mashumaro_to_dict_jsonb__", "__mashumaro_from_dict_json__")]),
    "msgpack": ("from mashumaro.mixins.msgpack import DataClassMessagePackMixin as MIX", "MIX",
                [("__mashumaro_to_dict__", "__mashumaro_from_dict__"), ("__mashumaro_to_msgpack__", "__mashumaro_from_msgpack__"),
                 ("__mashumaro_to_dict_msgpack__", "__mashumaro_from_dict_msgpack__")]),
    "plain": ("MIX = object", "", [("__mashumaro_to_dict__", "__mashumaro_from_dict__")]),
}


@dataclasses.dataclass(frozen=True)
class HPoint:
    base: str = "dict"
    hooks: tuple = ("pre_ser", "post_ser", "pre_de", "post_de")
    context: bool = False
    fields: str = "holes"  # holes | nested | self | none (no field at all) | noinit (only an init=False field)
    inner_context: bool = True
    outer_extra: str = ""  # "N": the outer class also opted in to the omit_none flag, which the nested class did not

    def label(self):
        return f"[{self.base}/{'+'.join(self.hooks) or 'nohooks'}/{self.fields}{'/ctx' if self.context else ''}{'' if self.inner_context else '/inner-noctx'}{'/outer+' + self.outer_extra if self.outer_extra else ''}]"


def class_source(p: HPoint):
    imp, mix, _ = BASES[p.base]
    src = [g4.PRELUDE, "from typing_extensions import Self", "from mashumaro.config import ADD_SERIALIZATION_CONTEXT, TO_DICT_ADD_OMIT_NONE_FLAG", imp]
    ctxarg = ", context=None" if p.context else ""

    def hooks(ind):
        out = []
        if "pre_ser" in p.hooks:
            out += [f"def __pre_serialize__(self{ctxarg}):", "    return self"]
        if "post_ser" in p.hooks:
            out += [f"def __post_serialize__(self, d{ctxarg}):", "    return d"]
        if "pre_de" in p.hooks:
            out += ["@classmethod", "def __pre_deserialize__(cls, d):", "    return d"]
        if "post_de" in p.hooks:
            out += ["@classmethod", "def __post_deserialize__(cls, obj):", "    return obj"]
        return [ind + l for l in out]

    if p.fields == "nested":
        src += ["@dataclass", f"class In({mix}):" if mix else "class In:", "    z: int = 0"]
        if p.inner_context:
            src += ["    def __pre_serialize__(self, context=None):", "        return self"]
            src += ["    class Config(BaseConfig):", "        code_generation_options = [ADD_SERIALIZATION_CONTEXT]"]
    src += ["@dataclass", f"class C({mix}):" if mix else "class C:"]
    if p.fields == "holes":
        src += ["    a: H1", "    b: Optional[H2] = None"]
    elif p.fields == "nested":
        src += ["    a: In", "    b: Optional[In] = None", "    c: List[In] = field(default_factory=list)"]
    elif p.fields == "none":
        src += ["    marker = 1"]
    elif p.fields == "noinit":
        src += ["    serial: int = field(init=False, default=0)"]
    else:
        src += ["    a: int", "    n: Optional[Self] = None", "    l: List[Self] = field(default_factory=list)"]
    src += hooks("    ")
    if p.context:
        extra = "TO_DICT_ADD_OMIT_NONE_FLAG, " if p.outer_extra == "N" else ""
        src += ["    class Config(BaseConfig):", f"        code_generation_options = [{extra}ADD_SERIALIZATION_CONTEXT]"]
    if p.base == "plain":
        src += ["from mashumaro.codecs.basic import BasicDecoder, BasicEncoder", "ENC = BasicEncoder(C)", "DEC = BasicDecoder(C)"]
    return "\n".join(src) + "\n"


def valid(p: HPoint):
    if p.fields == "self" and p.base == "plain":
        return False
    if p.fields == "nested" and p.base == "plain":
        return False
    if p.context and p.base == "plain":
        return False
    if p.context and "pre_ser" not in p.hooks and "post_ser" not in p.hooks and p.fields in ("holes", "none", "noinit"):
        return False
    return True


FLAGS = None


def _flags():
    from mashumaro.config import ADD_DIALECT_SUPPORT, ADD_SERIALIZATION_CONTEXT, TO_DICT_ADD_BY_ALIAS_FLAG, TO_DICT_ADD_OMIT_NONE_FLAG

    return ((TO_DICT_ADD_OMIT_NONE_FLAG, "omit_none"), (TO_DICT_ADD_BY_ALIAS_FLAG, "by_alias"), (ADD_DIALECT_SUPPORT, "dialect"), (ADD_SERIALIZATION_CONTEXT, "context"))


def nested_call(owner, to_name, from_name):
    """nested dataclass positions: same-format dict-form unit, flags forwarded iff both classes opted in"""
    to_inner = to_name if "_dict" in to_name else to_name.replace("__mashumaro_to_", "__mashumaro_to_dict_")
    from_inner = from_name if "_dict" in from_name else from_name.replace("__mashumaro_from_", "__mashumaro_from_dict_")

    def call(gen, t, x, direction):
        if direction == "to":
            kw = [f"{pn}={pn}" for flag, pn in _flags() if flag in g2.class_flags(owner) and flag in g2.class_flags(t)]
            return f"{x}.{to_inner}({', '.join(kw)})"
        kw = ["dialect=dialect"] if g7._has_dialect_support(owner) and g7._has_dialect_support(t) else []
        sep = ", " if kw else ""
        return f"{gen.bind(t)}.{from_inner}({x}{sep}{', '.join(kw)})"

    return call


def c19_task(payload):
    pid, p = payload
    label = p.label()
    src = class_source(p)
    obs = []
    try:
        mod, recs0 = build.build_module(src)
    except Exception as e:
        return {"obligations": [dict(id=f"{pid}.G{label}/builds", status="refuted", unit="class creation",
                                     detail=f"schema does not build: {type(e).__name__}: {e}",
                                     witness={"confirmed": True, "source": src, "why": f"{type(e).__name__}: {e}"})]}
    try:
        cls = mod.C
        recs = [r for r in harvest.RECORDER.records if recs0 and r.seq >= recs0[0].seq]
        mine = [r for r in recs if r.builder is not None and r.builder.cls is cls]
        table = g4.helper_table(recs)
        final = {}
        for r in mine:
            for n in ast.parse(r.text).body:
                if isinstance(n, ast.FunctionDef) and g7.unit_identity(n.name):
                    final[n.name] = (r, n)
        for (to_name, from_name) in BASES[p.base][2]:
            decl = g7.declared_params(cls) if p.base != "plain" else {}
            # ---------------- serialization
            if to_name in final:
                r, fn = final[to_name]
                direction, fmt, has_coder = g7.unit_identity(to_name)
                d = decl.get(("to", fmt), {})
                genf0 = g7.effective_genf([d.get("dialect")], nested_call(cls, to_name, from_name))

                def genf(genf0=genf0):
                    gen = genf0()
                    gen.owner = cls
                    return gen

                params = [a.arg for a in fn.args.kwonlyargs]
                for passed in ([frozenset(), frozenset({"context"})] if "context" in params else [frozenset()]):
                    oid = f"{pid}.G{label}/{to_name}/passed={'context' if passed else 'none'}"
                    pp = g2.PPoint((), g7.effective_opts([("fmt", d.get("dialect"))]), False, ((("N",) if p.outer_extra == "N" else ()) + ("X",)) if p.context else ())
                    object.__setattr__(pp, "ser_hooks", tuple(h[:-4] for h in p.hooks if h.endswith("_ser")))
                    object.__setattr__(pp, "hook_context", p.context)
                    object.__setattr__(pp, "count_hooks", True)
                    try:
                        unwrap = g7._make_unwrap(d, r.builder, fn) if has_coder else None
                        res = g2.verify_to_dict(cls, fn, dict(r.globals), pp, ("call", "cfgd", "cfg", "fmt"), passed,
                                                view_factory=g4.make_enc_view(cls, genf), inline=table, unwrap=unwrap)
                        obs.append(g4._ob(oid, res, r, "the hook contract (pre once first, post once last, context unchanged) + PROJECT", cls))
                    except (pysym.NotInSubset, ref.Unsupported) as e:
                        obs.append(dict(id=oid, status="undecided", detail=f"outside the verified subset: {e}", unit=r.text[:600]))
            # ---------------- deserialization
            if from_name in final:
                r, fn = final[from_name]
                direction, fmt, has_coder = g7.unit_identity(from_name)
                d = decl.get(("from", fmt), {})
                genf0 = g7.effective_genf([d.get("dialect")], nested_call(cls, to_name, from_name))

                def genf2(genf0=genf0):
                    gen = genf0()
                    gen.owner = cls
                    return gen

                oid = f"{pid}.G{label}/{from_name}"
                pt = g1.Point((), pre_hook="pre_de" in p.hooks, post_hook="post_de" in p.hooks, base="mixin" if p.base != "plain" else "plain")
                object.__setattr__(pt, "exc_details", False)
                object.__setattr__(pt, "count_hooks", True)
                try:
                    res = g1.verify_from_dict(cls, fn, dict(r.globals), pt, view_factory=g4.make_dec_view(cls, genf2), inline=table,
                                              pre_call=(d.get("coder") if has_coder else None))
                    obs.append(g4._ob(oid, res, r, "FROM_SPEC with hooks (pre once before any read, post once on the instance)", cls))
                except (pysym.NotInSubset, ref.Unsupported) as e:
                    obs.append(dict(id=oid, status="undecided", detail=f"outside the verified subset: {e}", unit=r.text[:600]))
        if not obs:
            obs.append(dict(id=f"{pid}.G{label}/units", status="error", detail="no units verified"))
        return {"obligations": obs}
    finally:
        build.drop_module(mod)


STUB_SRC = {
    "lazy": '''
@dataclass
class C(MIX):
    a: int = 0
    b: Optional[H1] = None
    def __pre_serialize__(self{ctx}):
        LOG.append(("pre_ser", id(self)))
        return self
    def __post_serialize__(self, d{ctx}):
        LOG.append(("post_ser", id(self)))
        return d
    @classmethod
    def __pre_deserialize__(cls, d):
        LOG.append(("pre_de", 0))
        return d
    @classmethod
    def __post_deserialize__(cls, obj):
        LOG.append(("post_de", 0))
        return obj
    class Config(BaseConfig):
        lazy_compilation = True
        code_generation_options = [{opts}]
''',
    "postponed": '''
@dataclass
class C(MIX):
    a: int = 0
    n: Optional["Later"] = None
    def __pre_serialize__(self{ctx}):
        LOG.append(("pre_ser", id(self)))
        return self
    def __post_serialize__(self, d{ctx}):
        LOG.append(("post_ser", id(self)))
        return d
    @classmethod
    def __pre_deserialize__(cls, d):
        LOG.append(("pre_de", 0))
        return d
    @classmethod
    def __post_deserialize__(cls, obj):
        LOG.append(("post_de", 0))
        return obj
    class Config(BaseConfig):
        code_generation_options = [{opts}]
@dataclass
class Later(MIX):
    z: int = 0
''',
}
HOOK_NAMES = ("__pre_serialize__", "__post_serialize__", "__pre_deserialize__", "__post_deserialize__")


def stub_task(payload):
    """lazy / postponed classes with hooks: the stub that compiles the real method on first use must not run
    a hook itself (the method it re-dispatches to runs each exactly once): ghost count 0 on every path of the
    stub, by symbolic execution of the stub text; the first call is also replayed natively with counting hooks"""
    pid, base, mode, ctx = payload
    label = f"[{base}/{mode}{'/ctx' if ctx else ''}]"
    imp, mix, eps = BASES[base]
    src = "\n".join([g4.PRELUDE, "from mashumaro.config import ADD_SERIALIZATION_CONTEXT", imp, "LOG = []"]) + STUB_SRC[mode].format(
        ctx=", context=None" if ctx else "", opts="ADD_SERIALIZATION_CONTEXT" if ctx else "")
    obs = []
    try:
        mod, recs0 = build.build_module(src)
    except Exception as e:
        return {"obligations": [dict(id=f"{pid}.Gstub{label}/builds", status="refuted", detail=f"{type(e).__name__}: {e}", witness={"confirmed": True, "source": src, "why": str(e)})]}
    try:
        cls = mod.C
        stubs = []
        for r in recs0:
            if r.builder is None or r.builder.cls is not cls or "CodeBuilder(" not in r.text:
                continue
            for n in ast.parse(r.text).body:
                if isinstance(n, ast.FunctionDef) and g7.unit_identity(n.name):
                    stubs.append((r, n))
        probs = []
        for r, fn in stubs:
            n_static = [ast.unparse(c.func) for c in ast.walk(fn) if isinstance(c, ast.Call) and isinstance(c.func, ast.Attribute) and c.func.attr in HOOK_NAMES]
            try:
                eng = pysym.Engine()
                ex = pysym.Executor(eng, dict(r.globals))
                ex.assume_hasattr = True
                ex.nonraising_prefixes = ("",)
                ex.ghost_calls = {("meth", h): h for h in HOOK_NAMES}
                args = {}
                for a in fn.args.args + fn.args.kwonlyargs:
                    args[a.arg] = Tm(eng.fresh(a.arg))
                paths = ex.run(fn, args)
                prover = pysym.Prover(eng, 5000)
                for path in paths:
                    if prover.sat(path.pc)[0] == z3.unsat:
                        continue
                    hs = [g[1] for g in path.ghosts if g[0] == "call" and g[1] in HOOK_NAMES]
                    if hs:
                        probs.append(f"{fn.name}: the stub itself calls {sorted(set(hs))} before re-dispatching to the compiled method (which calls it again)")
            except pysym.NotInSubset:
                if n_static:
                    probs.append(f"{fn.name}: the stub text calls {sorted(set(n_static))}")
        w = None
        # native first calls with counting hooks
        first = []
        try:
            inst = cls(1)
            for to_name, from_name in eps:
                pub_to = to_name.replace("__mashumaro_", "").rstrip("_")
                pub_from = from_name.replace("__mashumaro_", "").rstrip("_")
                if not hasattr(inst, pub_to) or "_dict_" in pub_to:
                    continue
                mod.LOG.clear()
                out = getattr(inst, pub_to)()
                c = {k: sum(1 for e in mod.LOG if e[0] == k) for k in ("pre_ser", "post_ser")}
                if c != {"pre_ser": 1, "post_ser": 1}:
                    first.append(f"first {pub_to}(): hook calls {c}, expected one each")
                mod.LOG.clear()
                getattr(cls, pub_from)(out)
                c = {k: sum(1 for e in mod.LOG if e[0] == k) for k in ("pre_de", "post_de")}
                if c != {"pre_de": 1, "post_de": 1}:
                    first.append(f"first {pub_from}(): hook calls {c}, expected one each")
        except Exception as e:  # noqa
            first.append(f"first call raised {type(e).__name__}: {str(e)[:160]}")
        if first:
            w = {"confirmed": True, "source": src, "input": "C(1), first call of each entry point", "why": "; ".join(first)[:600]}
        obs.append(dict(id=f"{pid}.Gstub{label}/stub_runs_no_hook", status="proved" if not probs else "refuted", unit=f"{len(stubs)} stub functions",
                        detail="; ".join(sorted(set(probs)))[:700], witness=w if probs else None))
        if not stubs:
            obs.append(dict(id=f"{pid}.Gstub{label}/cover", status="refuted", detail="no stub text harvested for a lazy/postponed class (vacuity guard)"))
        obs.append(dict(id=f"{pid}.Hstub{label}/first_call_counts", status="proved" if not first else "refuted", unit="native first calls with counting hooks (bounded)", bounded=True,
                        detail="; ".join(first)[:600], witness=w))
        return {"obligations": obs}
    finally:
        build.drop_module(mod)


RECUNION_SRC = '''
from mashumaro.config import ADD_SERIALIZATION_CONTEXT, ADD_DIALECT_SUPPORT, TO_DICT_ADD_OMIT_NONE_FLAG, TO_DICT_ADD_BY_ALIAS_FLAG
LOG = []
@dataclass
class Lf(MIX):
    x: int = 0
    def __pre_serialize__(self, context=None):
        LOG.append(("pre", self.x, context))
        return self
    def __post_serialize__(self, d, context=None):
        LOG.append(("post", self.x, context))
        return d
    class Config(BaseConfig):
        code_generation_options = [{opts}]
type Tree = Lf | list[Tree]
type Maybe = Lf | None | dict[str, Maybe]
@dataclass
class C(MIX):
    tree: Tree
    m: Maybe = None
    def __pre_serialize__(self, context=None):
        LOG.append(("pre", "C", context))
        return self
    class Config(BaseConfig):
        code_generation_options = [{opts}]
'''


def recunion_task(payload):
    """recursive type aliases (PEP 695): the union helper calls itself; the flags (context, dialect, omit_none, by_alias)
    must be threaded through every such call.  Static obligation over all generated functions of the schema (caller
    against the callee's own signature) + a counted / context-capturing native run (bounded)."""
    pid, base, opts = payload
    label = f"[{base}/recursive-union/{'+'.join(o.split('_')[-1] for o in opts) or 'noflags'}]"
    imp, mix, eps = BASES[base]
    src = "\n".join([g4.PRELUDE, imp]) + RECUNION_SRC.format(opts=", ".join(opts))
    try:
        mod, recs0 = build.build_module(src)
    except Exception as e:
        return {"obligations": [dict(id=f"{pid}.Grec{label}/builds", status="refuted", detail=f"{type(e).__name__}: {e}"[:300], witness={"confirmed": True, "source": src, "why": str(e)[:200]})]}
    try:
        ctx = {"k": 1}
        inst = mod.C(tree=[mod.Lf(1), [mod.Lf(2), [mod.Lf(3)]]], m={"a": mod.Lf(4), "b": {"c": mod.Lf(5)}})
        first = []
        kw = {"context": ctx} if "ADD_SERIALIZATION_CONTEXT" in opts else {}
        try:
            mod.LOG.clear()
            inst.to_dict(**kw)
            pre = [e for e in mod.LOG if e[0] == "pre" and e[1] != "C"]
            post = [e for e in mod.LOG if e[0] == "post"]
            if sorted(e[1] for e in pre) != [1, 2, 3, 4, 5] or sorted(e[1] for e in post) != [1, 2, 3, 4, 5]:
                first.append(f"hooks ran for {sorted(e[1] for e in pre)} / {sorted(e[1] for e in post)}, expected once for each of the five leaves")
            if kw and any(e[2] is not ctx for e in mod.LOG):
                bad = [e for e in mod.LOG if e[2] is not ctx][0]
                first.append(f"{bad[0]}-serialize hook of leaf {bad[1]} received context={bad[2]!r}, expected the caller's context object")
        except Exception as e:  # noqa
            first.append(f"to_dict raised {type(e).__name__}: {str(e)[:160]}")
        recs = [r for r in harvest.RECORDER.records if recs0 and r.seq >= recs0[0].seq]
        probs, ncalls = units.flag_threading_problems(recs)
        w = {"confirmed": True, "source": src, "input": "C(tree=[Lf(1), [Lf(2), [Lf(3)]]], m={'a': Lf(4), 'b': {'c': Lf(5)}}).to_dict(context={'k': 1})", "why": first[0]} if first else None
        obs = [dict(id=f"{pid}.Grec{label}/flags_threaded", status="proved" if not probs else "refuted", unit=f"{ncalls} helper calls in the generated functions",
                    detail="; ".join(sorted(set(probs)))[:600], witness=w if probs else None)]
        if not ncalls and opts:
            obs.append(dict(id=f"{pid}.Grec{label}/cover", status="refuted", detail="no helper call found in the generated functions of a recursive union (vacuity guard)"))
        obs.append(dict(id=f"{pid}.Hrec{label}/counted_run", status="proved" if not first else "refuted", unit="native to_dict with counting, context-capturing hooks (bounded)", bounded=True,
                        detail="; ".join(first)[:500], witness=w))
        return {"obligations": obs}
    finally:
        build.drop_module(mod)


def lattice(tier):
    pts = []
    hook_sets = [("pre_ser", "post_ser", "pre_de", "post_de"), ("pre_ser",), ("post_ser",), ("pre_de",), ("post_de",), ("pre_ser", "post_ser"), ()]
    for base in BASES:
        for hs in hook_sets:
            for ctx in (False, True):
                for fs in ("holes", "nested", "self", "none", "noinit"):
                    for inner in ((True, False) if fs == "nested" else (True,)):
                        if tier == "quick" and base in ("orjson", "msgpack") and hs not in (hook_sets[0], hook_sets[1], hook_sets[2], ()):
                            continue
                        pts.append(HPoint(base, hs, ctx, fs, inner))
                        if fs == "nested" and ctx and inner and hs in (hook_sets[0], hook_sets[1], ()):
                            # the outer class enables an earlier flag the nested class does not: context still reaches the nested class
                            pts.append(HPoint(base, hs, ctx, fs, inner, "N"))
    seen, out = set(), []
    for p in pts:
        if p.label() not in seen and valid(p):
            seen.add(p.label())
            out.append(p)
    return out


# ---------------------------------------------------------------------------------------------
# union helpers on the codec path: number of serializer attempts per returning path
# ---------------------------------------------------------------------------------------------
UNION_SRC = '''
@dataclass
class M1:
    a: int = 0
    def __pre_serialize__(self):
        return self

@dataclass
class M2:
    b: str = ""
    def __pre_serialize__(self):
        return self

@dataclass
class X1(DataClassDictMixin):
    a: int = 0
    def __pre_serialize__(self):
        return self

@dataclass
class X2(DataClassDictMixin):
    b: str = ""
    def __pre_serialize__(self):
        return self

from mashumaro.codecs.basic import BasicEncoder, BasicDecoder
ENC_PLAIN = BasicEncoder(Union[M1, M2])
ENC_MIXIN = BasicEncoder(Union[X1, X2])

@dataclass
class Holder(DataClassDictMixin):
    u: Union[X1, X2]
'''


def union_task(payload):
    pid, which = payload
    src = g4.PRELUDE + UNION_SRC
    mod, recs = build.build_module(src)
    obs = []
    try:
        uidx = units.unit_index(harvest.RECORDER.records)
        helpers = []
        for r in recs:
            for n in ast.parse(r.text).body:
                if isinstance(n, ast.FunctionDef) and n.name.startswith("__pack_union"):
                    helpers.append((r, n))
        for r, fn in helpers:
            owner = r.builder.cls.__name__ if r.builder is not None else "?"
            oid = f"{pid}.G5[{'codec' if owner == '__root__' else owner}:{fn.name.split('__')[1] if '__' in fn.name else fn.name}:{len(obs)}]/attempts"
            eng = pysym.Engine()
            ex = pysym.Executor(eng, dict(r.globals))
            ex.assume_hasattr = True
            ex.ghost_calls = {}
            for k in uidx.values():
                ex.ghost_calls[k] = "attempt"
            ex.ghost_calls[("meth", "__mashumaro_to_dict__")] = "attempt"
            ex.hooks = {"call": units.unit_call_hook(uidx)}
            v = eng.fresh("value")
            params = [a.arg for a in fn.args.args]
            args = {params[-1]: Tm(v)}
            if len(params) == 2:
                args[params[0]] = Tm(eng.fresh("self"))
            # precondition (type invariant of a conforming value): its class descends from at most one of the unrelated member
            # classes named in the helper's class tests (no multiple inheritance across members)
            gcls = []
            for n in ast.walk(fn):
                if isinstance(n, ast.Call) and isinstance(n.func, ast.Name) and n.func.id == "isinstance" and len(n.args) == 2:
                    for e in (n.args[1].elts if isinstance(n.args[1], ast.Tuple) else [n.args[1]]):
                        k = (r.globals or {}).get(e.id) if isinstance(e, ast.Name) else None
                        if isinstance(k, type) and k not in gcls:
                            gcls.append(k)
            pre = []
            tv = eng.typeof(v)
            for i, ka in enumerate(gcls):
                for kb in gcls[i + 1:]:
                    if not issubclass(ka, kb) and not issubclass(kb, ka):
                        pre.append(z3.Not(z3.And(eng.issub(tv, eng.const(ka)), eng.issub(tv, eng.const(kb)))))
            paths = ex.run(fn, args, pc=pre)
            probs = []
            nret = 0
            prover = pysym.Prover(eng, 5000, extra_axioms=pre)
            for path in paths:
                if path.kind != "return":
                    continue
                if prover.sat(path.pc)[0] == z3.unsat:
                    continue
                nret += 1
                n = sum(1 for g in path.ghosts if g[0] == "call" and g[1] == "attempt")
                if n != 1:
                    probs.append(f"a returning path makes {n} serializer attempts on the same instance (each runs its __pre_serialize__)")
            obs.append(dict(id=oid, status="proved" if not probs and nret else "refuted", unit=fn.name, paths=len(paths),
                            detail="; ".join(sorted(set(probs)))[:400], sample=r.text[:600],
                            witness=(_union_witness(mod, owner) if probs else None)))
        return {"obligations": obs}
    finally:
        build.drop_module(mod)


def _union_witness(mod, owner):
    calls = []
    orig = mod.M2.__pre_serialize__

    def counting(self):
        calls.append(1)
        return self

    mod.M2.__pre_serialize__ = counting
    try:
        enc = __import__("mashumaro.codecs.basic", fromlist=["BasicEncoder"]).BasicEncoder(typing.Union[mod.M1, mod.M2])
        enc.encode(mod.M2("x"))
    except Exception as e:  # noqa
        return {"confirmed": False, "why": f"replay raised {type(e).__name__}: {e}"}
    finally:
        mod.M2.__pre_serialize__ = orig
    if len(calls) != 1:
        return {"confirmed": True, "why": f"BasicEncoder(Union[M1, M2]).encode(M2('x')) ran M2.__pre_serialize__ {len(calls)} times", "input": "M2('x')"}
    return None


def check(pid, tier):
    t0 = time.time()
    pts = lattice(tier)
    res = runner.run_pool(c19_task, [(pid, p) for p in pts], chunks=2)
    res += runner.run_pool(union_task, [(pid, "unions")], chunks=1)
    res += runner.run_pool(recunion_task, [(pid, base, opts) for base in ("dict", "orjson") for opts in (("ADD_SERIALIZATION_CONTEXT",), ("ADD_SERIALIZATION_CONTEXT", "ADD_DIALECT_SUPPORT", "TO_DICT_ADD_OMIT_NONE_FLAG"), ())], chunks=1)
    res += runner.run_pool(member_flags_task, [(pid, base, ("ADD_SERIALIZATION_CONTEXT",)) for base in ("dict", "orjson", "msgpack")]
                           + [(pid, "dict", ("ADD_SERIALIZATION_CONTEXT", "ADD_DIALECT_SUPPORT", "TO_DICT_ADD_OMIT_NONE_FLAG", "TO_DICT_ADD_BY_ALIAS_FLAG"))], chunks=1)
    res += runner.run_pool(disc_hooks_task, [(pid, base) for base in ("dict", "orjson", "msgpack")], chunks=1)
    res += runner.run_pool(stub_task, [(pid, base, mode, ctx) for base in ("dict", "orjson", "msgpack") for mode in ("lazy", "postponed") for ctx in (False, True)], chunks=1)
    obs, crashes = [], []
    for r in res:
        if "crash" in r:
            crashes.append(r["crash"] + " @ " + r["payload"] + "\n" + r["trace"][-600:])
        else:
            obs.extend(r["obligations"])
    return runner.finish(
        pid, tier, obs, t0,
        technique="symbolic execution of the generated to_*/from_* units with ghost counters on hook calls (pysym, z3): counts and positions of the hook calls on every returning path, values as PROJECT/FROM_SPEC over the hook results, context forwarding per the opt-in rule",
        units=len(pts) + 1,
        extra_cov={"points": len(pts), "explanation": "bases dict/orjson/msgpack/plain-codec x hook subsets x context opt-in x field shapes (holes, nested dataclasses with and without their own opt-in, typing.Self positions); union helpers: serializer attempts per returning path"},
        trusted={"A2: hooks are pure and return a conforming instance / JSON-like mapping", "nested instances: one nested serializer call per element per returning path by the comprehension (map) rule"},
        functions=["CodeBuilder._add_pack_method_lines / _add_unpack_method_lines hook emission", "CodeBuilder._add_pack_method_lines_lazy / _add_unpack_method_lines_lazy (stub runs no hook)", "pack_union (attempt counting)", "pack_dataclass / pack Self flag forwarding"],
        crashes=crashes,
    )


# ---------------------------------------------------------------------------------------------
# union members with different opt-ins: every attempt the union helper can make on an instance of a
# member class K is K's own required call (the flags both K and the holder opted in to, no others)
# ---------------------------------------------------------------------------------------------
MEMBER_SRC = '''
from mashumaro.config import ADD_SERIALIZATION_CONTEXT, ADD_DIALECT_SUPPORT, TO_DICT_ADD_OMIT_NONE_FLAG, TO_DICT_ADD_BY_ALIAS_FLAG
LOG = []
class CallD(Dialect):
    serialization_strategy = {{int: {{"serialize": str, "deserialize": int}}}}
@dataclass
class B(MIX):
    y: Optional[str] = None
@dataclass
class A(MIX):
    x: Optional[int] = field(default=None, metadata={{"alias": "X"}})
    {hook}
    class Config(BaseConfig):
        code_generation_options = [{opts}]
@dataclass
class C(MIX):
    u: Union[B, A]
    v: Union[A, B]
    w: List[Union[B, A]] = field(default_factory=list)
    class Config(BaseConfig):
        code_generation_options = [{opts}]
'''
MEMBER_CALLS = {
    "ADD_SERIALIZATION_CONTEXT": ("context", "{'k': 1}"),
    "TO_DICT_ADD_OMIT_NONE_FLAG": ("omit_none", "True"),
    "TO_DICT_ADD_BY_ALIAS_FLAG": ("by_alias", "True"),
    "ADD_DIALECT_SUPPORT": ("dialect", "CallD"),
}


def _union_attempts(fn):
    """[(guard expression or None, call node)] for the serializer calls `value.__mashumaro_to_*__(...)` of a union helper"""
    out = []

    def visit(stmts, guard):
        for s in stmts:
            if isinstance(s, ast.If):
                visit(s.body, s.test if guard is None else ast.BoolOp(ast.And(), [guard, s.test]))
                visit(s.orelse, guard)
            elif isinstance(s, ast.Try):
                visit(s.body, guard)
            elif isinstance(s, (ast.For, ast.While, ast.With)):
                visit(s.body, guard)
            else:
                for c in ast.walk(s):
                    if (isinstance(c, ast.Call) and isinstance(c.func, ast.Attribute) and c.func.attr.startswith("__mashumaro_to_")
                            and isinstance(c.func.value, ast.Name) and c.func.value.id == "value"):
                        out.append((guard, c))

    visit(fn.body, None)
    return out


def member_flags_task(payload):
    pid, base, opts = payload
    label = f"[{base}/union-members/{'+'.join(MEMBER_CALLS[o][0] for o in opts)}]"
    imp, mix, eps = BASES[base]
    hook = "def __post_serialize__(self, d, context=None):\n        LOG.append(context)\n        return d" if "ADD_SERIALIZATION_CONTEXT" in opts else "pass"
    src = "\n".join([g4.PRELUDE, imp]) + MEMBER_SRC.format(opts=", ".join(opts), hook=hook)
    try:
        mod, recs0 = build.build_module(src)
    except Exception as e:
        return {"obligations": [dict(id=f"{pid}.Gmem{label}/builds", status="refuted", detail=f"{type(e).__name__}: {e}"[:300], witness={"confirmed": True, "source": src, "why": str(e)[:200]})]}
    try:
        recs = [r for r in harvest.RECORDER.records if recs0 and r.seq >= recs0[0].seq]
        members = [mod.B, mod.A]
        probs, nattempts = [], 0
        for r in recs:
            if r.builder is None or r.builder.cls is not mod.C:
                continue
            g = dict(r.globals or {})
            for fn in [n for n in ast.parse(r.text).body if isinstance(n, ast.FunctionDef) and n.name.startswith("__pack_union")]:
                for guard, call in _union_attempts(fn):
                    nattempts += 1
                    got = sorted(k.arg for k in call.keywords if k.arg)
                    if guard is None:
                        applicable = list(members)
                    else:
                        gcls = [g.get(n.id) for n in ast.walk(guard) if isinstance(n, ast.Name) and isinstance(g.get(n.id), type)]
                        applicable = [K for K in members if any(issubclass(K, x) for x in gcls)]
                    for K in applicable:
                        want = sorted(pn for flag, pn in _flags() if flag in g2.class_flags(mod.C) and flag in g2.class_flags(K))
                        if got != want:
                            probs.append(f"{fn.name.split('__')[1]}: the attempt {ast.unparse(call)} {'is not guarded by a class test and ' if guard is None else ''}can run on an instance of {K.__name__}, "
                                         f"whose required call passes ({', '.join(want) or 'no flag'})")
        # native replay: equal instances of A in both declaration orders give equal results and see the caller's context
        first = []
        kw = {MEMBER_CALLS[o][0]: eval(MEMBER_CALLS[o][1], vars(mod)) for o in opts}
        try:
            mod.LOG.clear()
            d = mod.C(u=mod.A(None), v=mod.A(None), w=[mod.A(3)]).to_dict(**kw)
            if d["u"] != d["v"]:
                first.append(f"the same A() serializes as {d['u']!r} under Union[B, A] and as {d['v']!r} under Union[A, B]")
            if "context" in kw and any(c is not kw["context"] for c in mod.LOG):
                first.append(f"A.__post_serialize__ received context={[c for c in mod.LOG if c is not kw['context']][0]!r}, expected the caller's context object")
            if "dialect" in kw and d["w"] != [{"x": "3"} if "by_alias" not in kw else {"X": "3"}]:
                first.append(f"List[Union[B, A]] member A(3) serialized as {d['w']!r} under dialect=CallD")
        except Exception as e:  # noqa
            first.append(f"to_dict raised {type(e).__name__}: {str(e)[:160]}")
        call_txt = f"C(u=A(None), v=A(None), w=[A(3)]).to_dict({', '.join(MEMBER_CALLS[o][0] + '=' + MEMBER_CALLS[o][1] for o in opts)})"
        w = {"confirmed": True, "source": src, "input": call_txt, "why": first[0]} if first else None
        obs = [dict(id=f"{pid}.Gmem{label}/member_calls", status="proved" if not probs else "refuted", unit=f"{nattempts} serializer attempts in the union helpers of C",
                    detail="; ".join(sorted(set(probs)))[:700], witness=w if probs else None)]
        if not nattempts:
            obs.append(dict(id=f"{pid}.Gmem{label}/cover", status="refuted", detail="no serializer attempt found in the union helpers (vacuity guard)"))
        obs.append(dict(id=f"{pid}.Hmem{label}/native_run", status="proved" if not first else "refuted", unit="native to_dict on equal members in both declaration orders (bounded)", bounded=True,
                        detail="; ".join(first)[:500], witness=w))
        return {"obligations": obs}
    finally:
        build.drop_module(mod)


# ---------------------------------------------------------------------------------------------
# hooks x class-level discriminator: the base's unit only dispatches; the hooks belong to the unit of the class that is built
# ---------------------------------------------------------------------------------------------
DISC_SRC = '''
from mashumaro.types import Discriminator
TRACE = []
@dataclass
class DBase(MIX):
    seq: int = 0
    @classmethod
    def __pre_deserialize__(cls, d):
        TRACE.append(("pre", cls.__name__))
        return dict(d, seq=d.get("seq", 0) + 1)
    @classmethod
    def __post_deserialize__(cls, obj):
        TRACE.append(("post", cls.__name__))
        return obj
    class Config(BaseConfig):
        discriminator = Discriminator(field="kind", include_subtypes=True)
@dataclass
class DVar(DBase):
    kind: str = "v"
    name: str = ""
@dataclass
class DHolder(MIX):
    items: List[DBase] = field(default_factory=list)
'''


def disc_hooks_task(payload):
    """a class whose Config declares a discriminator: its from-unit dispatches to the variant's unit, which runs the hooks of the
    instance it builds - exactly once.  Static obligation on the base's generated unit: no hook call on the path that returns the
    dispatch; native counted run (bounded) through the base, a holder field and the codec."""
    pid, base = payload
    imp, mix, eps = BASES[base]
    label = f"[{base}/discriminated-base+hooks]"
    src = "\n".join([g4.PRELUDE, imp]) + DISC_SRC
    try:
        mod, recs0 = build.build_module(src)
    except Exception as e:
        return {"obligations": [dict(id=f"{pid}.Gdisc{label}/builds", status="refuted", detail=f"{type(e).__name__}: {e}"[:300], witness={"confirmed": True, "source": src, "why": str(e)[:200]})]}
    try:
        first = []
        from mashumaro.codecs.basic import BasicDecoder

        for name, call in (("DBase.from_dict", lambda: mod.DBase.from_dict({"kind": "v", "name": "a"})),
                           ("DHolder.from_dict", lambda: mod.DHolder.from_dict({"items": [{"kind": "v", "name": "a"}]}).items[0]),
                           ("BasicDecoder(DBase).decode", lambda: BasicDecoder(mod.DBase).decode({"kind": "v", "name": "a"}))):
            mod.TRACE.clear()
            try:
                got = call()
                if mod.TRACE != [("pre", "DVar"), ("post", "DVar")]:
                    first.append(f"{name}: hook trace {mod.TRACE}, expected [('pre', 'DVar'), ('post', 'DVar')]")
                if got != mod.DVar(1, "v", "a"):
                    first.append(f"{name}: returned {got!r}, expected DVar(seq=1, kind='v', name='a')")
            except Exception as e:  # noqa
                first.append(f"{name}: raised {type(e).__name__}: {str(e)[:120]}")
        recs = [r for r in harvest.RECORDER.records if recs0 and r.seq >= recs0[0].seq]
        probs, nunits = [], 0
        for r in recs:
            if r.builder is None or r.builder.cls is not mod.DBase:
                continue
            for fn in [n for n in ast.parse(r.text).body if isinstance(n, ast.FunctionDef) and g7.unit_identity(n.name) and g7.unit_identity(n.name)[0] == "from"]:
                nunits += 1
                hooked = False
                for stmt in fn.body:
                    txt = ast.unparse(stmt)
                    if "__pre_deserialize__" in txt or "__post_deserialize__" in txt:
                        hooked = True
                    if isinstance(stmt, ast.Return) and "__unpack_" in txt and hooked:
                        probs.append(f"{fn.name}: a hook is applied before `{txt[:80]}` - the variant's own unit applies it again")
                    for sub in ast.walk(stmt):
                        if isinstance(sub, ast.Return) and sub is not stmt and "__unpack_" in ast.unparse(sub) and hooked:
                            probs.append(f"{fn.name}: a hook is applied before the dispatch `{ast.unparse(sub)[:80]}`")
        w = {"confirmed": True, "source": src, "input": "DBase.from_dict({'kind': 'v', 'name': 'a'})", "why": first[0]} if first else None
        obs = [dict(id=f"{pid}.Gdisc{label}/dispatch_runs_no_hook", status=("proved" if not probs else "refuted") if nunits else "error", unit=f"{nunits} from-units of the discriminated base",
                    detail="; ".join(sorted(set(probs)))[:500] if nunits else "no unit harvested", witness=w if probs else None),
               dict(id=f"{pid}.Hdisc{label}/counted_run", status="proved" if not first else "refuted", unit="native decode through the base, a holder field and the codec (bounded)", bounded=True,
                    detail="; ".join(first)[:500], witness=w)]
        return {"obligations": obs}
    finally:
        build.drop_module(mod)

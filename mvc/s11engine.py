"""S11: the field-level engine of a named tuple (serialize / deserialize = "as_dict" | "as_list") is an option of the
TUPLE: the ValueSpec that pack_named_tuple / unpack_named_tuple hand to the registry for a MEMBER carries no such option
(a member that is a named tuple itself inherits it).  Otherwise the member reads the string as its own field-level
customization - the most specific level of C10 - and every registration for the member's type (Config, dialects) loses.

The two functions are run for real (class creation) with `PackerRegistry.get` / `UnpackerRegistry.get` wrapped by a recorder
(instance attribute set from the sidecar, no /repo edit); the contract is checked on every member spec they produce.
Exhaustive over engine in {none, as_dict, as_list} x member kind {converted leaf, named tuple} x direction; the clause
depends on nothing else.  Plus a native replay with a Config.dialect strategy for the member type.
"""
from __future__ import annotations

import typing

from . import build, g4

SRC = '''
class _NTin(NamedTuple):
    when: datetime.date
class NTdt(NamedTuple):
    when: datetime.date
    inner: _NTin
    n: int = 1
def _ser_date(v):
    return v.toordinal()
def _de_date(v):
    return datetime.date.fromordinal(v)
class CfgD(Dialect):
    serialization_strategy = {{datetime.date: {{"serialize": _ser_date, "deserialize": _de_date}}}}
@dataclass
class C(DataClassDictMixin):
    x: NTdt = field(metadata={{{MD}}})
    class Config(BaseConfig):
        dialect = CfgD
'''


def engine_spec_task(payload):
    pid, engine = payload
    import mashumaro.core.meta.types.pack as mp
    import mashumaro.core.meta.types.unpack as mu
    from mashumaro.core.meta.helpers import is_named_tuple

    md = "" if engine is None else f"'serialize': {engine!r}, 'deserialize': {engine!r}"
    src = g4.PRELUDE + SRC.format(MD=md)
    rec = {"to": [], "from": []}
    orig_p, orig_u = mp.PackerRegistry.get, mu.UnpackerRegistry.get

    def rp(spec, _o=orig_p):
        rec["to"].append(spec)
        return _o(spec)

    def ru(spec, _o=orig_u):
        rec["from"].append(spec)
        return _o(spec)

    mp.PackerRegistry.get = rp
    mu.UnpackerRegistry.get = ru
    try:
        try:
            mod, _ = build.build_module(src)
        except Exception as e:  # noqa
            return {"obligations": [dict(id=f"{pid}.S11[{engine}]/builds", status="refuted", unit="class creation", detail=f"{type(e).__name__}: {e}"[:300],
                                         witness={"confirmed": True, "source": src, "why": f"{type(e).__name__}: {e}"[:300]})]}
    finally:
        del mp.PackerRegistry.get
        del mu.UnpackerRegistry.get
    try:
        import datetime

        obs = []
        for direction, key in (("to", "serialize"), ("from", "deserialize")):
            # member specs: those of field x whose type is a member type of NTdt / _NTin (the field's own type is NTdt)
            members = [s for s in rec[direction] if s.field_ctx.name == "x" and s.type in (datetime.date, int, mod._NTin)]
            if not members:
                obs.append(dict(id=f"{pid}.S11[{direction}/{engine}]/cover", status="error", detail="no member spec recorded"))
                continue
            for kind, pred in (("leaf", lambda s: not is_named_tuple(s.type)), ("named-tuple", lambda s: is_named_tuple(s.type))):
                sel = [s for s in members if pred(s)]
                probs = []
                for s in sel:
                    got = s.field_ctx.metadata.get(key)
                    want = engine if kind == "named-tuple" else None
                    if got != want:
                        probs.append(f"member spec {s.expression} : {getattr(s.type, '__name__', s.type)} carries {key}={got!r}, expected {want!r}")
                w = None
                if probs:
                    try:
                        inst = mod.C(mod.NTdt(datetime.date(2020, 1, 2), mod._NTin(datetime.date(2020, 1, 3))))
                        d = inst.to_dict()
                        flat = repr(d)
                        if direction == "to" and "737" not in flat.split("inner")[0]:
                            w = {"confirmed": True, "source": src, "input": "C(NTdt(date(2020, 1, 2), _NTin(date(2020, 1, 3)))).to_dict()", "got": flat[:200],
                                 "why": "the Config.dialect strategy for datetime.date is not applied to the tuple's member"}
                        if direction == "from":
                            good = {"x": ({"when": 737426, "inner": {"when": 737427}, "n": 1} if engine == "as_dict" else [737426, [737427], 1])}
                            try:
                                back = mod.C.from_dict(good)
                                if back != inst:
                                    w = {"confirmed": True, "source": src, "input": repr(good), "got": repr(back)[:200], "why": "decoded value differs"}
                            except Exception as e:  # noqa
                                w = {"confirmed": True, "source": src, "input": repr(good), "why": f"from_dict raised {type(e).__name__}: {str(e)[:160]}"}
                    except Exception as e:  # noqa
                        w = {"confirmed": False, "why": f"replay raised {type(e).__name__}: {e}"[:200]}
                obs.append(dict(id=f"{pid}.S11[{direction}/{engine}/{kind}]/member_spec", status=("proved" if not probs else "refuted") if sel else "error",
                                unit=f"{'pack' if direction == 'to' else 'unpack'}_named_tuple: {len(sel)} member specs handed to the registry", backend="enumeration",
                                detail="; ".join(sorted(set(probs)))[:500] if sel else "no member spec of this kind recorded", witness=w))
        return {"obligations": obs}
    finally:
        build.drop_module(mod)


def obligations(pid):
    from . import runner

    obs, crashes = [], []
    for r in runner.run_pool(engine_spec_task, [(pid, e) for e in (None, "as_dict", "as_list")], chunks=1):
        if "crash" in r:
            crashes.append(r["crash"] + " @ " + r["payload"] + "\n" + r["trace"][-500:])
        else:
            obs.extend(r["obligations"])
    return obs, crashes

"""G1: generated ``__mashumaro_from_dict__`` of a dataclass against FROM_SPEC / KEYMODEL
(properties C05, C07, C09).  The lattice points are *schemas*; the real generator is run on each
and the harvested function is verified for all inputs ``d``.

Specification (from the property statements, not from the code):

  FROM_SPEC(d) =
    d is not a dict                         -> raise ValueError
    forbid_extra_keys, dom(d) - accepted    -> raise ExtraKeysError(dom(d) - accepted, cls)
    first init field f in declaration order with
       lookup_f(d) missing, no default      -> raise MissingField(f, type_f, cls)
       conv_f(lookup_f(d)) raises           -> raise InvalidFieldValue(f, type_f, lookup_f(d), cls)
    otherwise                               -> cls(f = conv_f(lookup_f(d)) for present f; absent f not passed)
  lookup_f(d) = d[alias_f] if alias_f in d else (d[name_f] if allow_not_by_alias or no alias) else missing
  accepted    = {alias_f or name_f} + ({name_f} if allow_not_by_alias) + {class-level discriminator field}
"""
from __future__ import annotations

import dataclasses
import inspect
import itertools
import os
import time
import typing

import z3

from . import pysym, ref
from .pysym import Bl, Call, Exc, Ite, KeySet, LD, LL, Ob, Tm, _const_key, _short

JSONLIKE = (type(None), bool, int, float, str, list, dict)

ANNS = ("Hs", "OptHs", "Any", "int", "Optint")
DEFAULTS = ("MISSING", "None", "value", "factory", "falsy")
ALIASES = ("-", "meta", "annotated", "config")
ROLES = ("pos", "kw_only", "after_KW_ONLY", "init_false", "initvar", "classvar", "inherited", "overridden", "cls_kw_only")
# cls_kw_only: the class is decorated @dataclass(kw_only=True); the field itself says nothing (while the mixin compiles the class inside
# __init_subclass__, before the decorator ran, such a Field has no kw_only yet)


# ---------------------------------------------------------------------------------------------
# schema points -> source text of the classes
# ---------------------------------------------------------------------------------------------
@dataclasses.dataclass(frozen=True)
class F:
    name: str
    ann: str = "Hs"
    default: str = "MISSING"
    alias: str = "-"
    role: str = "pos"
    alias_name: str = ""  # explicit alias string (default al_<name>)
    over: str = ""  # for overridden / mid_overridden: what the ancestor declares: req|dflt|none|init_false

    def al(self):
        return self.alias_name or f"al_{self.name}"

    def label(self):
        extra = (f"={self.alias_name}" if self.alias_name else "") + (f"^{self.over}" if self.over else "")
        return f"{self.name}:{self.ann}/{self.default}/{self.alias}{extra}/{self.role}"


@dataclasses.dataclass(frozen=True)
class Point:
    fields: tuple
    allow_not_by_alias: bool = False
    forbid_extra_keys: bool = False
    dialect_support: bool = False
    parent_discriminator: bool = False
    pre_hook: bool = False
    post_hook: bool = False
    base: str = "mixin"  # mixin | plain (plain dataclass used through a codec)
    by_alias: bool = False  # Config.serialize_by_alias

    def label(self):
        opts = "".join(
            c
            for c, on in (
                ("A", self.allow_not_by_alias),
                ("X", self.forbid_extra_keys),
                ("D", self.dialect_support),
                ("P", self.parent_discriminator),
                ("h", self.pre_hook),
                ("H", self.post_hook),
                ("S", self.by_alias),
            )
            if on
        )
        return f"[{'|'.join(f.label() for f in self.fields)}]{opts or '-'}{'' if self.base == 'mixin' else '@' + self.base}"


PRELUDE = '''
import dataclasses
from dataclasses import dataclass, field, InitVar, KW_ONLY
import typing
from typing import Any, Optional, ClassVar
from typing_extensions import Annotated
from mashumaro import DataClassDictMixin, pass_through
from mashumaro.config import BaseConfig, ADD_DIALECT_SUPPORT
from mashumaro.types import SerializableType, Alias, Discriminator

class _Hole(SerializableType):
    def __init__(self, v=None):
        self.v = v
    def __eq__(self, other):
        return type(self) is type(other) and self.v == other.v
    def __hash__(self):
        return hash((type(self).__name__, repr(self.v)))
    def __repr__(self):
        return f"{type(self).__name__}({self.v!r})"
    def __bool__(self):
        return self.v != 0  # user classes may be falsy: H(0) is
    def _serialize(self):
        return {"hole": type(self).__name__, "v": self.v}
    @classmethod
    def _deserialize(cls, value):
        if not (isinstance(value, dict) and value.get("hole") == cls.__name__):
            raise ValueError("bad hole value")
        return cls(value.get("v"))
'''


def ann_src(f: F):
    h = f"H_{f.name}"
    base = {"Hs": h, "OptHs": f"Optional[{h}]", "Any": "Any", "int": "int", "Optint": "Optional[int]"}[f.ann]
    if f.alias == "annotated":
        base = f"Annotated[{base}, Alias({f.al()!r})]"
    if f.alias in ("multi", "multi2"):
        base = f"Annotated[{base}, Alias('ann_{f.name}')]"
    return base


def default_value_src(f: F):
    h = f"H_{f.name}"
    if f.default == "falsy":
        # a default that is not None but falsy
        return f"{h}(0)" if f.ann in ("Hs", "OptHs") else ("''" if f.ann == "Any" else "0")
    if f.ann in ("Hs", "OptHs"):
        return f"{h}(7)"
    if f.ann == "Any":
        return "'dflt'"
    return "7"


def field_src(f: F, in_base=False):
    """source line(s) for one field in a class body"""
    ann = ann_src(f)
    kwargs = []
    if f.default == "None":
        kwargs.append("default=None")
    elif f.default in ("value", "falsy"):
        if f.ann in ("Hs", "OptHs"):
            kwargs.append(f"default_factory=lambda: {default_value_src(f)}") if False else kwargs.append(f"default={default_value_src(f)}")
        else:
            kwargs.append(f"default={default_value_src(f)}")
    elif f.default == "factory":
        kwargs.append(f"default_factory=lambda: {default_value_src(f)}")
    if f.alias == "multi":
        kwargs.append(f"metadata={{'alias': 'meta_{f.name}'}}")
    if f.alias == "meta":
        kwargs.append(f"metadata={{'alias': {f.al()!r}}}")
    if f.role == "kw_only":
        kwargs.append("kw_only=True")
    if f.role == "init_false":
        kwargs.append("init=False")
    lines = []
    if f.role == "after_KW_ONLY":
        lines.append("_: KW_ONLY")
    if f.role == "initvar":
        d = "" if f.default == "MISSING" else " = None"
        lines.append(f"{f.name}: InitVar[{ann}]{d}")
        return lines
    if f.role == "classvar":
        lines.append(f"{f.name}: ClassVar[{ann}] = None")
        return lines
    if kwargs:
        lines.append(f"{f.name}: {ann} = field({', '.join(kwargs)})")
    else:
        lines.append(f"{f.name}: {ann}")
    return lines


def ancestor_decl(f: F):
    """what an ancestor class declares for a field that a descendant re-declares"""
    over = f.over or ("dflt" if f.default != "MISSING" else "req")
    h_ann = ann_src(dataclasses.replace(f, alias="-"))
    if over == "req":
        return [f"{f.name}: {h_ann}"]
    if over == "dflt":
        return [f"{f.name}: {h_ann} = field(default_factory=lambda: 'ancestor-default')"]
    if over == "none":
        return [f"{f.name}: Optional[{h_ann}] = None"]
    if over == "init_false":
        return [f"{f.name}: {h_ann} = field(init=False, default=None)"]
    raise ValueError(over)


def class_source(p: Point, cname="C", mixin=True):
    """source of the schema: optional Root <- Base <- C chain.
    roles: inherited (declared in Base), overridden (Base declares the ancestor form, C re-declares),
    mid_overridden (Root declares the ancestor form, Base re-declares, C only inherits)"""
    src = [PRELUDE]
    for f in p.fields:
        src.append(f"class H_{f.name}(_Hole): pass")
    mix = "DataClassDictMixin" if (p.base == "mixin" and mixin) else ""
    root_fields = [f for f in p.fields if f.role == "mid_overridden"]
    base_fields = [f for f in p.fields if f.role in ("inherited", "overridden", "mid_overridden")]
    cfg = []
    cg = []
    if p.dialect_support:
        cg.append("ADD_DIALECT_SUPPORT")
    if cg:
        cfg.append(f"code_generation_options = [{', '.join(cg)}]")
    if p.allow_not_by_alias:
        cfg.append("allow_deserialization_not_by_alias = True")
    if p.forbid_extra_keys:
        cfg.append("forbid_extra_keys = True")
    if p.by_alias:
        cfg.append("serialize_by_alias = True")
    al = {f.name: f.al() for f in p.fields if f.alias == "config"}
    al.update({f.name: f"cfg_{f.name}" for f in p.fields if f.alias in ("multi", "multi2")})
    if al:
        cfg.append(f"aliases = {al!r}")
    hooks = []
    if p.pre_hook:
        hooks += ["@classmethod", "def __pre_deserialize__(cls, d):", "    return d"]
    if p.post_hook:
        hooks += ["@classmethod", "def __post_deserialize__(cls, obj):", "    return obj"]
    bases = [mix] if mix else []
    if root_fields:
        src.append("@dataclass")
        src.append(f"class Root{cname}({mix}):" if mix else f"class Root{cname}:")
        body = []
        for f in root_fields:
            body += ancestor_decl(f)
        src += ["    " + l for l in body]
        bases = [f"Root{cname}"]
    if base_fields or p.parent_discriminator:
        src.append("@dataclass")
        src.append(f"class Base{cname}({', '.join(bases)}):" if bases else f"class Base{cname}:")
        body = []
        for f in base_fields:
            if f.role == "overridden":
                body += ancestor_decl(f)
            else:
                body += field_src(dataclasses.replace(f, role="pos"))
        if p.parent_discriminator:
            body.append("class Config(BaseConfig):")
            body.append("    discriminator = Discriminator(field='kind', include_subtypes=True)")
        if not body:
            body = ["pass"]
        src += ["    " + l for l in body]
        bases = [f"Base{cname}"]
    src.append("@dataclass(kw_only=True)" if any(f.role == "cls_kw_only" for f in p.fields) else "@dataclass")
    src.append(f"class {cname}({', '.join(bases)}):" if bases else f"class {cname}:")
    body = []
    for f in p.fields:
        if f.role in ("inherited", "mid_overridden"):
            continue
        g = f
        if f.role == "overridden":
            g = dataclasses.replace(f, role="pos")
        body += field_src(g)
    if p.parent_discriminator:
        body.append("kind = 'c'")
    if cfg:
        body.append("class Config(BaseConfig):")
        body += ["    " + c for c in cfg]
    body += hooks
    if not body:
        body = ["pass"]
    src += ["    " + l for l in body]
    if p.base == "plain" and mixin:
        src.append("from mashumaro.codecs.basic import BasicDecoder, BasicEncoder")
        src.append(f"DECODER = BasicDecoder({cname})")
        src.append(f"ENCODER = BasicEncoder({cname})")
    return "\n".join(src) + "\n"


def valid_point(p: Point):
    """a point is admissible iff the *plain dataclass* twin (no mashumaro involved) can be built
    and instantiated-by-signature; this keeps invalid dataclass declarations out of the lattice
    without consulting the code under verification"""
    names = [f.name for f in p.fields]
    if len(set(names)) != len(names):
        return False
    for f in p.fields:
        if f.role == "classvar" and (f.alias != "-" or f.default != "None"):
            return False
        if f.role == "initvar" and (f.alias == "meta" or f.default != "None"):
            return False  # an InitVar is never read from the input, so it needs a default
        if f.role == "init_false" and f.default == "MISSING":
            return False
        if f.over and f.role not in ("overridden", "mid_overridden"):
            return False
        if f.ann == "Any" and f.default == "value" and False:
            return False
    try:
        ns = {}
        exec(compile(class_source(p, mixin=False), "<twin>", "exec"), ns)
    except Exception:
        return False
    return True


# ---------------------------------------------------------------------------------------------
# independent reading of a built class (the specification's view of the schema)
# ---------------------------------------------------------------------------------------------
class FieldView:
    def __init__(self, name, typ, alias, has_default, default, nullable, conv_kind, hole):
        self.name = name
        self.typ = typ
        self.alias = alias
        self.has_default = has_default
        self.default = default
        self.nullable = nullable
        self.conv_kind = conv_kind
        self.hole = hole


def _strip_annotated(t):
    import typing_extensions

    metas = []
    while typing_extensions.get_origin(t) is typing_extensions.Annotated:
        args = typing_extensions.get_args(t)
        metas.extend(args[1:])
        t = args[0]
    return t, metas


def schema_view(cls):
    """fields of ``cls`` as the documentation describes them: dataclasses.fields order, init
    fields only, alias by precedence (field metadata > Annotated Alias > Config.aliases)"""
    import typing_extensions
    from mashumaro.types import Alias

    hints = ref.resolved_hints(cls)
    config = getattr(cls, "Config", None)
    cfg_aliases = getattr(config, "aliases", {}) or {}
    out = []
    for f in dataclasses.fields(cls):
        if not f.init:
            continue
        t_full = hints[f.name]
        t, metas = _strip_annotated(t_full)
        alias = f.metadata.get("alias")
        if alias is None:
            for m in metas:
                if isinstance(m, Alias):
                    alias = m.name
        if alias is None:
            alias = cfg_aliases.get(f.name)
        has_default = f.default is not dataclasses.MISSING or f.default_factory is not dataclasses.MISSING
        default = f.default
        nullable = False
        inner = t
        if t is typing.Any or t is type(None) or t is None:
            nullable = True
        if typing.get_origin(t) is typing.Union and type(None) in typing.get_args(t):
            nullable = True
            rest = [a for a in typing.get_args(t) if a is not type(None)]
            inner = rest[0] if len(rest) == 1 else t
        if f.default is None:
            nullable = True
        if inner is typing.Any:
            kind, hole = "any", None
        elif inner is int:
            kind, hole = "int", None
        elif isinstance(inner, type) and hasattr(inner, "_deserialize"):
            kind, hole = "hole", inner
        else:
            kind, hole = "other", inner
        out.append(FieldView(f.name, t, alias, has_default, default, nullable, kind, hole))
    return out


def discriminator_field(cls):
    for k in cls.__mro__:
        cfg = k.__dict__.get("Config")
        d = getattr(cfg, "discriminator", None) if cfg is not None else None
        if d is not None and getattr(d, "field", None):
            return d.field
    return None


# ---------------------------------------------------------------------------------------------
# FROM_SPEC as a decision list over the engine's vocabulary
# ---------------------------------------------------------------------------------------------
def conv(eng: pysym.Engine, fv: FieldView, x):
    """(converted SymVal, raises z3 Bool) of the documented conversion of field fv applied to x"""
    if fv.conv_kind == "any":
        return x, z3.BoolVal(False)
    if fv.conv_kind == "int":
        key = _const_key(int)
        return Call(key, _short(int), [x]), eng.raises_pred(key, _short(int), [x], [])
    if fv.conv_kind == "hole":
        m = fv.hole._deserialize
        key = _const_key(m)
        return Call(key, _short(m), [x]), eng.raises_pred(key, _short(m), [x], [])
    if fv.conv_kind == "ref":
        return fv.conv_fn(x)
    raise pysym.NotInSubset(f"spec conversion for {fv.typ!r}")


def lookup(eng, fv: FieldView, d, allow):
    """(present z3 Bool, value SymVal)"""
    name_c = eng.const(fv.name)
    if fv.alias is not None:
        al = eng.const(fv.alias)
        if allow:
            present = z3.Or(eng.haskey(d, al), eng.haskey(d, name_c))
            val = Ite(eng.haskey(d, al), Tm(eng.dval(d, al)), Tm(eng.dval(d, name_c)))
            return present, val
        return eng.haskey(d, al), Tm(eng.dval(d, al))
    return eng.haskey(d, name_c), Tm(eng.dval(d, name_c))


def from_spec(eng, cls, d_val, allow, forbid, pre_hook=False, post_hook=False, view=None, pre_call=None):
    """decision list [(cond, ('raise', Exc) | ('return', SymVal))]; first match applies"""
    view = view if view is not None else schema_view(cls)
    cls_ob = Ob(cls)
    cases = []
    if pre_call is not None:
        # format entry points: the document is first parsed by the format's decoder
        d_val = Call(_const_key(pre_call), _short(pre_call), [d_val])
    if pre_hook:
        m = cls.__pre_deserialize__
        d_val = Call(_const_key(m), _short(m), [d_val])
    d = eng.term(d_val)
    isdict = eng.typeof(d) == eng.const(dict)
    if view:
        # (a class without readable fields never looks at its argument; the statement's
        # "returns an instance or raises" is satisfied by returning)
        cases.append((z3.Not(isdict), ("raise", Exc(Ob(ValueError), [Ob("*")]))))
    if forbid and view:
        accepted = set()
        for fv in view:
            accepted.add(fv.alias or fv.name)
            if allow:
                accepted.add(fv.name)
        df = discriminator_field(cls)
        if df:
            accepted.add(df)
        ks = KeySet(Tm(d), sorted(accepted))
        cases.append((eng.truth(ks), ("raise", Exc(Ob(_exc("ExtraKeysError")), [ks, cls_ob]))))
    passed = []
    for fv in view:
        present, val = lookup(eng, fv, d, allow)
        if not fv.has_default:
            cases.append((z3.Not(present), ("raise", Exc(Ob(_exc("MissingField")), [Ob(fv.name), Ob(fv.typ), cls_ob]))))
        cv, rz = conv(eng, fv, val)
        if fv.nullable:
            isnone = eng.is_(val, Ob(None))
            bad = z3.And(present, z3.Not(isnone), rz)
            cv = Ite(isnone, Ob(None), cv)
        else:
            bad = z3.And(present, rz)
        cases.append((bad, ("raise", Exc(Ob(_exc("InvalidFieldValue")), [Ob(fv.name), Ob(fv.typ), val, cls_ob]))))
        passed.append((fv, present, cv))
    cases.append((z3.BoolVal(True), ("return", ("ctor", passed))))
    return cases, d_val


def _exc(name):
    import mashumaro.exceptions as e

    return getattr(e, name)


def normalize_ctor(v, cls):
    """rewrite constructor calls of ``cls`` into {parameter: SymVal} (keyword form, by the real
    signature); returns (value, problems)"""
    problems = []

    def walk(x):
        if isinstance(x, Call):
            if x.key == _const_key(cls):
                try:
                    ba = inspect.signature(cls).bind(*x.args, **dict((k, a) for k, a in x.kw))
                except TypeError as e:
                    problems.append(f"constructor call does not bind: {e}")
                    return x
                if len({k for k, _ in x.kw}) != len(x.kw):
                    problems.append("duplicate keyword in constructor call")
                return Call(x.key, x.name, [], sorted(ba.arguments.items()))
            return Call(x.key, x.name, [walk(a) for a in x.args], [(k, walk(a)) for k, a in x.kw])
        if isinstance(x, Ite):
            return Ite(x.c, walk(x.a), walk(x.b))
        return x

    return walk(v), problems


def expected_ctor(eng, cls, passed, post_hook, pc_prover):
    raise NotImplementedError


# ---------------------------------------------------------------------------------------------
# verification of one harvested unit
# ---------------------------------------------------------------------------------------------
def verify_from_dict(cls, fn_ast, namespace, point: Point, timeout_ms=10000, view_factory=None, inline=None, pre_call=None, hooks=None):
    """returns dict(verdicts=[...], paths=n, detail=...)"""
    eng = pysym.Engine()
    ex = pysym.Executor(eng, namespace, hooks=hooks or {})
    if inline:
        ex.inline = inline
    if pre_call is not None:
        ex.nonraising.add(_const_key(pre_call))  # A8: the format decoder is outside the claim
    spec_hyps = []
    view0 = view_factory(eng, spec_hyps) if view_factory else None
    ex.nonraising.add(_const_key(cls))  # A2: dataclass __init__/__post_init__ do not raise
    if point.pre_hook:
        ex.nonraising.add(_const_key(cls.__pre_deserialize__))
    if point.post_hook:
        ex.nonraising.add(_const_key(cls.__post_deserialize__))
    d = eng.fresh("d")
    args = {"d": Tm(d)}
    params = [a.arg for a in fn_ast.args.args]
    if params and params[0] == "cls":
        args["cls"] = Ob(cls)
    if getattr(point, "dialect_value", None) is not None and "dialect" in [a.arg for a in fn_ast.args.kwonlyargs]:
        args["dialect"] = Ob(point.dialect_value)  # a unit compiled for a call dialect is invoked with it
    # precondition: d is JSON-like; hooks return JSON-like data
    pre = [z3.Or(*[eng.typeof(d) == eng.const(t) for t in JSONLIKE])]
    paths = ex.run(fn_ast, args, pc=pre)
    cases, d_eff = from_spec(eng, cls, Tm(d), point.allow_not_by_alias, point.forbid_extra_keys, point.pre_hook, point.post_hook, view=view0, pre_call=pre_call)
    if point.pre_hook or pre_call is not None:
        dt = eng.term(d_eff)
        pre.append(z3.Or(*[eng.typeof(dt) == eng.const(t) for t in JSONLIKE]))
    # contents of a JSON-like dict never are the MISSING sentinel
    missing = namespace.get("MISSING")
    k = eng.fresh("k")
    dd = eng.term(d_eff)
    extra = [z3.ForAll([k], eng.dval(dd, k) != eng.const(missing), patterns=[eng.dval(dd, k)])]
    # A3 for every opaque exception symbol is added at the call sites
    prover = pysym.Prover(eng, timeout_ms, extra_axioms=extra + pre + spec_hyps)
    verdicts = []
    results = {"outcome": [], "frame": []}
    for i, p in enumerate(paths):
        goal_parts = []
        prev = []
        detail = []
        for (cond, out) in cases:
            first = z3.And(*([z3.Not(c) for c in prev] + [cond]))
            eqc = outcome_eq(eng, cls, p, out, point, detail)
            goal_parts.append(z3.And(first, eqc))
            prev.append(cond)
        goal = z3.Or(*goal_parts)
        v = prover.prove(f"path{i}", p.pc, goal)
        v.path = p
        v.detail = (v.detail + " " + "; ".join(sorted(set(detail)))).strip()
        verdicts.append(v)
    # cover: at least one feasible returning path, and the precondition is satisfiable
    ret = [p for p in paths if p.kind == "return"]
    cover = not ret
    for p in ret:
        r, _ = prover.sat(p.pc)
        if r != z3.unsat:  # sat, or undetermined (quantifiers): not vacuous as far as can be told
            cover = True
            break
    cover = cover and bool(ret)
    return {
        "verdicts": verdicts,
        "paths": len(paths),
        "cover": cover,
        "queries": prover.queries,
        "solver_s": prover.time_s,
        "unresolved": ex.unresolved,
        "attr_fail": ex.attr_fail,
        "engine": eng,
        "prover": prover,
        "cases": cases,
        "trusted": sorted(eng.trusted),
    }


def outcome_eq(eng, cls, path, out, point, detail):
    kind, val = out
    if path.kind != kind:
        return z3.BoolVal(False)
    if kind == "raise":
        e, s = path.value, val
        if not getattr(point, "exc_details", True):
            return z3.BoolVal(True)  # only "raises iff the reference raises" is claimed here
        if e.cls is None or not pysym._const_eq(e.cls.o, s.cls.o):
            return z3.BoolVal(False)
        if s.cls.o is ValueError or not getattr(point, "exc_details", True):
            return z3.BoolVal(True)
        if len(e.args) != len(s.args) or e.kw:
            detail.append("exception arguments differ in number")
            return z3.BoolVal(False)
        return z3.And(*[eng.eq_struct(a, b) for a, b in zip(e.args, s.args)])
    # return: cls(...) possibly wrapped by the post hook
    _, passed = val
    got = path.value
    if point.post_hook:
        m = cls.__post_deserialize__
        if not (isinstance(got, Call) and got.key == _const_key(m) and len(got.args) == 1 and not got.kw):
            detail.append("result is not the post-deserialize hook applied to the instance")
            return z3.BoolVal(False)
        got = got.args[0]
    if not (isinstance(got, Call) and got.key == _const_key(cls)):
        detail.append("result is not a constructor call of the class")
        return z3.BoolVal(False)
    norm, problems = normalize_ctor(got, cls)
    if problems:
        detail.extend(problems)
        return z3.BoolVal(False)
    gotmap = dict(norm.kw)
    conds = []
    names = set()
    for fv, present, cv in passed:
        names.add(fv.name)
        if fv.name in gotmap:
            # passed on this path: must be present in the input, with the converted value; the
            # one tolerated alternative (C07 statement): an explicit null for a field whose
            # constructor default is None may be left to the constructor
            conds.append(z3.And(present, eng.eq_struct(gotmap[fv.name], cv)))
        else:
            if fv.has_default and fv.default is None and fv.nullable:
                conds.append(z3.Or(z3.Not(present), eng.eq_struct(cv, Ob(None))))
            else:
                conds.append(z3.Not(present))
    for k in gotmap:
        if k not in names:
            detail.append(f"constructor receives {k}, which is not an init field")
            return z3.BoolVal(False)
    return z3.And(*conds) if conds else z3.BoolVal(True)


# ---------------------------------------------------------------------------------------------
# concrete oracle and replay (a counter-model is only believed after it replays natively)
# ---------------------------------------------------------------------------------------------
class _NotPassed:
    def __repr__(self):
        return "<not passed>"


NOT_PASSED = _NotPassed()


def concrete_conv(fv, x):
    if fv.conv_kind == "any":
        return x
    if fv.conv_kind == "int":
        return int(x)
    return fv.hole._deserialize(x)


def from_spec_concrete(cls, d, allow, forbid):
    """('raise', exc class name, attrs) | ('return', {field: value | NOT_PASSED})"""
    view = schema_view(cls)
    if not isinstance(d, dict) and view:
        return ("raise", "ValueError", {})
    if forbid and view:
        accepted = set()
        for fv in view:
            accepted.add(fv.alias or fv.name)
            if allow:
                accepted.add(fv.name)
        df = discriminator_field(cls)
        if df:
            accepted.add(df)
        extra = set(d.keys()) - accepted
        if extra:
            return ("raise", "ExtraKeysError", {"extra_keys": extra, "target_type": cls})
    got = {}
    for fv in view:
        if fv.alias is not None:
            if fv.alias in d:
                present, val = True, d[fv.alias]
            elif allow and fv.name in d:
                present, val = True, d[fv.name]
            else:
                present, val = False, None
        else:
            present, val = (fv.name in d), d.get(fv.name)
        if not present:
            if not fv.has_default:
                return ("raise", "MissingField", {"field_name": fv.name, "holder_class": cls})
            got[fv.name] = NOT_PASSED
            continue
        if fv.nullable and val is None:
            got[fv.name] = None
            continue
        try:
            got[fv.name] = concrete_conv(fv, val)
        except Exception:
            return ("raise", "InvalidFieldValue", {"field_name": fv.name, "field_value": val, "holder_class": cls})
    return ("return", got)


def run_real(cls, d, entry="mixin"):
    """run the real deserializer; same outcome shape as from_spec_concrete, defaults resolved by
    a sentinel-free comparison: NOT_PASSED is judged by comparing with a default-constructed twin"""
    import copy

    d0 = copy.deepcopy(d)
    try:
        if entry == "mixin":
            obj = cls.from_dict(d)
        else:
            from mashumaro.codecs.basic import BasicDecoder

            obj = BasicDecoder(cls).decode(d)
    except BaseException as e:  # noqa
        attrs = {}
        for a in ("field_name", "field_value", "holder_class", "extra_keys", "target_type"):
            if hasattr(e, a):
                attrs[a] = getattr(e, a)
        return ("raise", type(e).__name__, attrs), (d == d0)
    return ("return", obj), (d == d0)


def compare_outcomes(cls, expected, actual):
    """None if they agree, else a description"""
    if expected[0] != actual[0]:
        return f"expected {expected[0]} {expected[1]!r}, got {actual[0]} {actual[1]!r}"
    if expected[0] == "raise":
        if expected[1] != actual[1]:
            return f"expected {expected[1]}, got {actual[1]} {actual[2]!r}"
        for k, v in expected[2].items():
            if k not in actual[2]:
                return f"exception lacks attribute {k}"
            if actual[2][k] != v and not (actual[2][k] is v):
                return f"exception attribute {k}: expected {v!r}, got {actual[2][k]!r}"
        return None
    obj = actual[1]
    if type(obj) is not cls:
        return f"result is a {type(obj).__name__}, not {cls.__name__}"
    for f in dataclasses.fields(cls):
        if not f.init:
            continue
        exp = expected[1].get(f.name, NOT_PASSED)
        have = getattr(obj, f.name)
        if exp is NOT_PASSED:
            if f.default is not dataclasses.MISSING:
                want = f.default
            elif f.default_factory is not dataclasses.MISSING:
                want = f.default_factory()
            else:
                return f"field {f.name} has no default and was not expected to be passed"
            if have != want:
                return f"field {f.name}: key absent, expected default {want!r}, got {have!r}"
        elif have != exp or type(have) is not type(exp):
            return f"field {f.name}: expected {exp!r}, got {have!r}"
    return None


def candidate_keys(cls, allow):
    view = schema_view(cls)
    keys = []
    for fv in view:
        keys.append(fv.name)
        if fv.alias:
            keys.append(fv.alias)
    keys += ["None", "stranger"]
    df = discriminator_field(cls)
    if df:
        keys.append(df)
    for f in dataclasses.fields(cls):
        if f.name not in keys:
            keys.append(f.name)
    out = []
    for k in keys:
        if k not in out:
            out.append(k)
    return out


def key_values(cls, key):
    """concrete values to try under a key: a good one for each field reading it, bad, None"""
    view = schema_view(cls)
    vals = []
    for fv in view:
        if fv.conv_kind == "hole":
            vals.append({"hole": fv.hole.__name__, "v": 3})
        elif fv.conv_kind == "int":
            vals.append(5)
    vals += ["bad", None]
    out = []
    for v in vals:
        if not any(v == w and type(v) is type(w) for w in out):
            out.append(v)
    return out


def model_to_input(res, verdict, cls, point):
    """turn a z3 counter-model of a failing path into a concrete input"""
    eng = res["engine"]
    m = verdict.model
    if m is None:
        return None
    dconst = [c for c in m.decls() if c.name().startswith("d!")]
    try:
        d = None
        for dc in dconst:
            d = dc()
        if d is None:
            return None
        ty = m.eval(eng.typeof(d), model_completion=True)
        tobj = None
        for k, c in eng.consts.items():
            if z3.is_true(m.eval(c == ty, model_completion=True)):
                tobj = eng.const_obj[k]
        if tobj is not dict:
            samples = {type(None): None, bool: True, int: 3, float: 1.5, str: "s", list: [1]}
            return samples.get(tobj, None), True
        out = {}
        view = schema_view(cls)
        for key in candidate_keys(cls, point.allow_not_by_alias):
            kc = eng.const(key)
            if not z3.is_true(m.eval(eng.haskey(d, kc), model_completion=True)):
                continue
            val = eng.dval(d, kc)
            if z3.is_true(m.eval(val == eng.const(None), model_completion=True)):
                out[key] = None
                continue
            # choose good/bad by the raise predicate of the field that reads this key
            chosen = "bad"
            for fv in view:
                if key in (fv.alias, fv.name) or key == "None":
                    if fv.conv_kind == "any":
                        chosen = "anything"
                        break
                    _, rz = conv(eng, fv, Tm(val))
                    if z3.is_false(m.eval(rz, model_completion=True)):
                        chosen = {"hole": fv.hole.__name__, "v": 3} if fv.conv_kind == "hole" else 5
                        break
            out[key] = chosen
        return out, True
    except Exception:
        return None


def battery(cls, point, limit=4000, seed=0):
    """bounded stand-in used only to look for a concrete witness of an already failed obligation"""
    import random

    rnd = random.Random(seed)
    keys = candidate_keys(cls, point.allow_not_by_alias)
    yield from (None, 3, "s", [1], [], True, 1.5)
    yield {}
    choices = {k: [NOT_PASSED] + key_values(cls, k) for k in keys}
    total = 1
    for k in keys:
        total *= len(choices[k])
    if total <= limit:
        for combo in itertools.product(*[choices[k] for k in keys]):
            yield {k: v for k, v in zip(keys, combo) if v is not NOT_PASSED}
    else:
        for _ in range(limit):
            yield {k: v for k in keys for v in [rnd.choice(choices[k])] if v is not NOT_PASSED}


def find_witness(cls, point, first=None, entry="mixin", seed=0):
    """(input, expected, actual, why) of the first concrete disagreement, or None"""
    cands = []
    if first is not None:
        cands.append(first)
    seen = 0
    for d in itertools.chain(cands, battery(cls, point, seed=seed)):
        seen += 1
        import copy

        exp = from_spec_concrete(cls, copy.deepcopy(d), point.allow_not_by_alias, point.forbid_extra_keys)
        act, unchanged = run_real(cls, copy.deepcopy(d) if not isinstance(d, dict) else d, entry)
        why = compare_outcomes(cls, exp, act)
        if why is None and not unchanged:
            why = "the input object was modified"
        if why is not None:
            return {"input": d, "expected": repr(exp), "actual": repr(act), "why": why, "tried": seen}
    return None


# ---------------------------------------------------------------------------------------------
# lattices (DESIGN.md Appendix B, G1) and the pool worker
# ---------------------------------------------------------------------------------------------
KINDS = [  # reduced field kinds used for sequences: (ann, default)
    ("Hs", "MISSING"),
    ("Hs", "value"),
    ("OptHs", "None"),
    ("OptHs", "MISSING"),
    ("Any", "MISSING"),
    ("Any", "factory"),
    ("int", "factory"),
    ("Optint", "value"),
]


def _dedup(points):
    seen = set()
    out = []
    for p in points:
        k = p.label()
        if k in seen:
            continue
        seen.add(k)
        if valid_point(p):
            out.append(p)
    return out


def lattice_c05(tier):
    pts = []
    # every single-field class: annotation x default x role x forbid_extra_keys
    for ann, dflt, role, forbid in itertools.product(ANNS, DEFAULTS, ("pos", "kw_only"), (False, True)):
        pts.append(Point((F("a", ann, dflt, "-", role),), forbid_extra_keys=forbid))
    # ordered pairs of field kinds (the first bad field decides); when a required field follows a
    # defaulted one the defaulted one is keyword-only (the only way dataclasses admit that order)
    for (a1, d1), (a2, d2) in itertools.product(KINDS, KINDS):
        for forbid in (False, True):
            need_kw = d1 != "MISSING" and d2 == "MISSING"
            variants = [("kw_only", "pos")] if need_kw else [("pos", "pos"), ("kw_only", "pos")]
            if tier == "thorough":
                variants = variants + [("pos", "kw_only"), ("after_KW_ONLY", "pos")]
            for r1, r2 in variants:
                if r1 == "after_KW_ONLY":
                    pts.append(Point((F("a", a1, d1, "-", r1), F("b", a2, d2)), forbid_extra_keys=forbid))
                else:
                    pts.append(Point((F("a", a1, d1, "-", r1), F("b", a2, d2, "-", r2)), forbid_extra_keys=forbid))
    # @dataclass(kw_only=True): required fields declared through field(...) (alias in the metadata) and plainly, before / after defaulted ones
    for al in ("meta", "-"):
        for (a2, d2) in (("Hs", "value"), ("OptHs", "None"), ("Hs", "MISSING")):
            for base in ("mixin", "plain"):
                pts.append(Point((F("a", "Hs", "MISSING", al, "cls_kw_only"), F("b", a2, d2, "-", "cls_kw_only")), base=base))
                pts.append(Point((F("b", a2, d2, "-", "cls_kw_only"), F("a", "Hs", "MISSING", al, "cls_kw_only")), base=base))
    # hooks, dialect support, inherited classes, codec path
    for (a1, d1) in KINDS:
        f = (F("a", a1, d1),)
        pts.append(Point(f, pre_hook=True))
        pts.append(Point(f, post_hook=True))
        pts.append(Point(f, pre_hook=True, post_hook=True, forbid_extra_keys=True))
        pts.append(Point(f, dialect_support=True))
        pts.append(Point(f, base="plain"))
        pts.append(Point(f, base="plain", forbid_extra_keys=True))
        pts.append(Point((F("a", a1, d1, "-", "inherited"),)))
    if tier == "thorough":
        for ks in itertools.product(KINDS[:6], repeat=3):
            fields = []
            seen_default = False
            for n, (a, d) in zip("abc", ks):
                role = "pos"
                if d == "MISSING" and seen_default:
                    role = "kw_only"
                if d != "MISSING":
                    seen_default = True
                fields.append(F(n, a, d, "-", role))
            pts.append(Point(tuple(fields)))
            pts.append(Point(tuple(fields), forbid_extra_keys=True))
    return _dedup(pts)


def lattice_c09(tier):
    pts = []
    anns = ("Hs", "Any", "OptHs") if tier == "quick" else ANNS
    dfl = ("MISSING", "value") if tier == "quick" else DEFAULTS
    for alias, allow, forbid, ann, d in itertools.product(ALIASES, (False, True), (False, True), anns, dfl):
        pts.append(Point((F("a", ann, d, alias),), allow_not_by_alias=allow, forbid_extra_keys=forbid))
    # two fields: alias sources mixed; shadowed aliases (the alias of one field is the name of another)
    for s1, s2, allow, forbid in itertools.product(ALIASES, ALIASES, (False, True), (False, True)):
        pts.append(Point((F("a", "Hs", "MISSING", s1), F("b", "Any", "value", s2)), allow_not_by_alias=allow, forbid_extra_keys=forbid))
        if s1 != "-":
            # a is read from key 'b'; b has its own alias / no alias
            pts.append(Point((F("a", "Hs", "MISSING", s1, alias_name="b"), F("b", "Hs", "value", s2, alias_name="c" if s2 != "-" else "")), allow_not_by_alias=allow, forbid_extra_keys=forbid))
            pts.append(Point((F("a", "Any", "value", s2, alias_name="c" if s2 != "-" else ""), F("b", "Hs", "MISSING", s1, alias_name="a")), allow_not_by_alias=allow, forbid_extra_keys=forbid))
    # alias precedence: metadata over Annotated over Config (several sources on one field)
    for allow, forbid in itertools.product((False, True), repeat=2):
        pts.append(Point((F("a", "Hs", "MISSING", "multi"),), allow_not_by_alias=allow, forbid_extra_keys=forbid))
        pts.append(Point((F("a", "Hs", "value", "multi2"),), allow_not_by_alias=allow, forbid_extra_keys=forbid))
    # class-level discriminator field is an accepted key
    for alias, allow, forbid in itertools.product(("-", "meta"), (False, True), (False, True)):
        pts.append(Point((F("a", "Hs", "MISSING", alias),), allow_not_by_alias=allow, forbid_extra_keys=forbid, parent_discriminator=True))
    # inherited aliased fields, codec path
    for alias, allow, forbid in itertools.product(ALIASES, (False, True), (False, True)):
        pts.append(Point((F("a", "Hs", "MISSING", alias, "inherited"), F("b", "int", "value", alias)), allow_not_by_alias=allow, forbid_extra_keys=forbid))
        pts.append(Point((F("a", "Hs", "MISSING", alias),), allow_not_by_alias=allow, forbid_extra_keys=forbid, base="plain"))
    return _dedup(pts)


def lattice_c07(tier):
    pts = []
    roles = ("pos", "kw_only", "after_KW_ONLY", "init_false", "initvar", "classvar", "inherited")
    for ann, d, role in itertools.product(ANNS, DEFAULTS, roles):
        pts.append(Point((F("a", ann, d, "-", role),)))
        pts.append(Point((F("x", "Hs", "MISSING"), F("a", ann, d, "-", role)) if d != "MISSING" or role != "pos" else (F("a", ann, d, "-", role), F("x", "Hs", "value"))))
    # overriding: ancestor form x final form, two-level and three-level chains
    for over, (ann, d), role in itertools.product(("req", "dflt", "none", "init_false"), KINDS, ("overridden", "mid_overridden")):
        pts.append(Point((F("a", ann, d, "-", role, over=over),)))
        pts.append(Point((F("a", ann, d, "-", role, over=over), F("b", "Hs", "value", "-", "kw_only"))))
        pts.append(Point((F("a", ann, d, "-", role, over=over),), base="plain"))
    # aliased fields read with the name as a fallback: a present key (also an explicit null under the alias) wins
    for (ann, d), src, allow in itertools.product(KINDS, ALIASES[1:], (False, True)):
        pts.append(Point((F("a", ann, d, src),), allow_not_by_alias=allow))
    # constructor-argument assembly: sequences of field roles
    seq_kinds = [
        ("Hs", "MISSING", "pos"),
        ("Hs", "value", "pos"),
        ("Any", "MISSING", "kw_only"),
        ("OptHs", "None", "kw_only"),
        ("int", "factory", "after_KW_ONLY"),
        ("Hs", "value", "init_false"),
        ("Hs", "MISSING", "inherited"),
        ("Any", "value", "overridden"),
        ("Any", "MISSING", "pos"),
    ]
    n = 3 if tier == "quick" else 4
    for L in range(2, n + 1):
        for ks in itertools.product(seq_kinds, repeat=L):
            if sum(1 for k in ks if k[2] == "after_KW_ONLY") > 1:
                continue
            if tier == "quick" and L == 3 and len({k[2] for k in ks}) < 2:
                continue
            fields = tuple(F(nm, a, d, "-", r) for nm, (a, d, r) in zip("abcd", ks))
            pts.append(Point(fields))
    return _dedup(pts)


LATTICES = {"C05": lattice_c05, "C07": lattice_c07, "C09": lattice_c09}


def g1_task(payload):
    """verify the generated from_dict of one schema point; returns {'obligations': [...]}"""
    from . import build

    pid, point = payload
    label = point.label()
    oid = f"{pid}.G1{label}/from_spec"
    t0 = time.time()
    try:
        mod, recs = build.build_module(class_source(point))
    except Exception as e:
        return {"obligations": [dict(id=f"{pid}.G1{label}/builds", status="refuted", unit="class creation",
                                     detail=f"schema does not build: {type(e).__name__}: {e}",
                                     witness={"confirmed": True, "source": class_source(point), "why": f"class creation raises {type(e).__name__}: {e}"})]}
    try:
        cls = mod.C
        units = build.find_units(recs, cls, "__mashumaro_from_dict__")
        if len(units) != 1:
            return {"obligations": [dict(id=oid, status="error", detail=f"{len(units)} harvested units for the class")]}
        rec, fn = units[0]
        ns = dict(rec.globals)
        try:
            res = verify_from_dict(cls, fn, ns, point)
        except pysym.NotInSubset as e:
            w = find_witness(cls, point, entry="mixin" if point.base == "mixin" else "codec")
            st = "refuted" if w else "undecided"
            if w:
                w["confirmed"] = True
            return {"obligations": [dict(id=oid, status=st, detail=f"outside the verified subset: {e}", witness=w, unit=rec.text)]}
        bad = [v for v in res["verdicts"] if v.status != "proved"]
        ob = dict(id=oid, unit=f"{cls.__module__}.{cls.__qualname__}.__mashumaro_from_dict__", paths=res["paths"],
                  queries=res["queries"], solver_s=round(res["solver_s"], 4), backend="z3",
                  sample=rec.text if len(rec.text) < 1500 else rec.text[:1500] + "...")
        obs = []
        if not bad:
            ob["status"] = "proved"
        else:
            v0 = ([v for v in bad if v.status == "refuted"] or bad)[0]
            ob["status"] = "refuted" if any(v.status == "refuted" for v in bad) else "unknown"
            ob["detail"] = f"{len(bad)}/{len(res['verdicts'])} paths disagree with FROM_SPEC; first: {v0.path.kind} {v0.path.value!r} {v0.detail}"[:900]
            ob["solver_output"] = [f"{v.name}: {v.status} {v.detail}" for v in bad][:20]
            first = None
            if v0.model is not None:
                mi = model_to_input(res, v0, cls, point)
                if mi is not None:
                    first = mi[0]
                    ob["model_input"] = repr(first)
            w = find_witness(cls, point, first=first, entry="mixin" if point.base == "mixin" else "codec",
                             seed=int(os.environ.get("VERIF_SEED", "0") or 0))
            if w:
                w["confirmed"] = True
                w["source"] = class_source(point)
                w["entry"] = "mixin" if point.base == "mixin" else "codec"
                w["input"] = w["input"]
            ob["witness"] = w
            ob["replay"] = {"kind": "g1", "point": dataclasses.asdict(point)}
        obs.append(ob)
        obs.append(dict(id=f"{pid}.G1{label}/cover", status="proved" if res["cover"] else "refuted", unit=ob["unit"],
                        detail="" if res["cover"] else "no feasible returning path: vacuous contract"))
        return {"obligations": obs, "trusted": res["trusted"]}
    finally:
        build.drop_module(mod)

"""G3/G4: leaf table and constructor templates - the generated (de)serializer of ``x: T`` against
REF_DEC(T) / REF_ENC(T) (properties C02, C03; sharing clause of C18).

One schema per type expression: ``class C(DataClassDictMixin): x: T; y: Optional[T] = None``.
from_dict is verified with FROM_SPEC where conv_f = REF_DEC(T) (value equality *and* raise iff),
to_dict with PROJECT where pack_f = REF_ENC(T). Types are assembled from hole types (DESIGN 1.3).
"""
from __future__ import annotations

import ast
import dataclasses
import itertools
import os
import typing

import z3

from . import g1, g2, pysym, ref
from .pysym import Bl, Call, Exc, Ite, LD, LL, Ob, Tm, _const_key, _short

PRELUDE = '''
import collections, datetime, decimal, enum, fractions, ipaddress, os, pathlib, re, types, typing, uuid, zoneinfo
from dataclasses import dataclass, field
from typing import *
from typing_extensions import Annotated, TypedDict, NotRequired, Required, Unpack, Literal
from mashumaro import DataClassDictMixin, pass_through
from mashumaro.config import BaseConfig
from mashumaro.dialect import Dialect
from mashumaro.types import SerializableType

class _Hole(SerializableType):
    def __init__(self, v=None):
        self.v = v
    def __eq__(self, other):
        return type(self) is type(other) and self.v == other.v
    def __hash__(self):
        return hash((type(self).__name__, repr(self.v)))
    def __repr__(self):
        return f"{type(self).__name__}({self.v!r})"
    def __bool__(self):
        return self.v != 0  # user classes may be falsy: H(0) is
    def _serialize(self):
        return {"hole": type(self).__name__, "v": self.v}
    @classmethod
    def _deserialize(cls, value):
        if not (isinstance(value, dict) and value.get("hole") == cls.__name__):
            raise ValueError("bad hole value")
        return cls(value.get("v"))

class H1(_Hole): pass
class H2(_Hole): pass

@dataclass
class D1(DataClassDictMixin):
    z: int = 0

class E1(enum.Enum):
    A = "a"
    B = "b"

class IE(enum.IntEnum):
    X = 1

class NT1(NamedTuple):
    p: H1
    q: int

class NT2(NamedTuple):
    p: H1
    q: int = 3
    r: Optional[H2] = None

class NTL(NamedTuple):
    tags: List[int]
    attrs: Dict[str, int]
    n: int

class NT3(NamedTuple):
    q: int
    t: Tuple[H1, int] = (H1(0), 0)
    n: NT1 = NT1(H1(1), 2)

class TD1(TypedDict):
    p: H1
    q: int

class TD2(TypedDict):
    p: H1
    q: NotRequired[Optional[H2]]
    r: NotRequired[int]

NTy = NewType("NTy", H1)
TV = TypeVar("TV", bound=H1)
TVA = TypeVar("TVA")
'''

LEAVES = [
    "int", "float", "bool", "str", "Any", "type(None)", "H1", "D1", "E1", "IE",
    "datetime.datetime", "datetime.date", "datetime.time", "datetime.timedelta", "datetime.timezone",
    "zoneinfo.ZoneInfo", "uuid.UUID", "decimal.Decimal", "fractions.Fraction",
    "ipaddress.IPv4Address", "ipaddress.IPv6Address", "ipaddress.IPv4Network", "ipaddress.IPv6Network",
    "ipaddress.IPv4Interface", "ipaddress.IPv6Interface",
    "pathlib.PurePath", "pathlib.Path", "pathlib.PurePosixPath", "pathlib.PosixPath", "pathlib.PureWindowsPath", "os.PathLike",
    "bytes", "bytearray", "re.Pattern", "typing.Pattern",
    "NT1", "NT2", "NT3", "NTL", "TD1", "TD2", "NTy", "TV", "TVA", "Annotated[H1, 'meta']", "Final[H1]",
]
HOLES = ["Any", "int", "str", "H1", "D1", "Optional[H1]", "Optional[int]", "datetime.date"]
SEQ = ["List", "list", "Sequence", "MutableSequence", "Deque", "collections.deque", "Set", "set", "FrozenSet", "frozenset",
       "AbstractSet", "MutableSet"]
MAPS = ["Dict", "dict", "Mapping", "MutableMapping", "collections.OrderedDict", "OrderedDict", "DefaultDict", "collections.ChainMap", "ChainMap",
        "types.MappingProxyType"]
KEYS = ["str", "int", "H1", "datetime.date"]


def type_lattice(tier):
    ts = list(LEAVES)
    for k in SEQ:
        for h in HOLES:
            ts.append(f"{k}[{h}]")
    for k in MAPS:
        for h in HOLES:
            ts.append(f"{k}[str, {h}]")
        for kk in KEYS[1:]:
            ts.append(f"{k}[{kk}, H1]")
    # converted keys over conversion-free values: only the keys need a pass, the mapping is still rebuilt
    for k in (MAPS if tier == "thorough" else ["Dict", "dict", "Mapping", "collections.OrderedDict"]):
        for kk in ("H1", "datetime.date"):
            ts.append(f"{k}[{kk}, int]")
    ts += ["collections.Counter[str]", "Counter[H1]", "collections.Counter[int]"]
    for h in HOLES:
        ts.append(f"Tuple[{h}, ...]")
        ts.append(f"Tuple[{h}, int]")
        ts.append(f"Tuple[int, {h}, str]")
        ts.append(f"tuple[{h}, ...]")
    ts += ["Tuple[()]", "tuple", "Tuple", "List", "Dict", "list", "dict", "Sequence", "Mapping", "Set", "FrozenSet",
           "Tuple[int, Unpack[Tuple[H1, ...]]]", "Tuple[Unpack[Tuple[H1, ...]], int]",
           "Tuple[int, Unpack[Tuple[H1, ...]], str]", "Tuple[int, Unpack[Tuple[H1, ...]], str, H2]",
           "Tuple[H2, int, Unpack[Tuple[H1, ...]], str]", "Tuple[Unpack[Tuple[H1, ...]]]",
           # PEP 646 star syntax (the same types written without Unpack)
           "tuple[int, *tuple[H1, ...]]", "tuple[*tuple[H1, ...], int]", "tuple[int, *tuple[H1, ...], str, H2]"]
    # depth 2 compositions (compositionality cross-check)
    outer_seq = ["List", "Set", "Tuple[{}, ...]", "Optional"] if tier == "quick" else SEQ + ["Tuple[{}, ...]", "Optional"]
    inner = ["List[H1]", "Dict[str, H1]", "Optional[H1]", "Tuple[H1, int]", "NT1", "TD1", "datetime.date", "Set[int]", "List[int]", "Dict[str, int]"]
    for o in outer_seq:
        for i in inner:
            ts.append(o.format(i) if "{}" in o else f"{o}[{i}]")
    for o in (["Dict", "Mapping"] if tier == "quick" else MAPS):
        for i in inner:
            ts.append(f"{o}[str, {i}]")
    if tier == "thorough":
        # depth 3
        for a, b, c in itertools.product(["List", "Optional", "Dict[str, {}]"], ["List", "Dict[str, {}]", "Tuple[{}, ...]"], ["H1", "Optional[H1]", "datetime.date", "int"]):
            inner1 = b.format(c) if "{}" in b else f"{b}[{c}]"
            ts.append(a.format(inner1) if "{}" in a else f"{a}[{inner1}]")
    seen, out = set(), []
    for t in ts:
        if t not in seen:
            seen.add(t)
            out.append(t)
    return out


DIALECTS = {
    "default": dict(cfg="", native=(), no_copy=()),
    "nocopy_list": dict(cfg="no_copy_collections = (list,)", native=(), no_copy=(list,)),
    "nocopy_dict": dict(cfg="no_copy_collections = (dict,)", native=(), no_copy=(dict,)),
    "nocopy_both": dict(cfg="no_copy_collections = (list, dict)", native=(), no_copy=(list, dict)),
    # named tuples written as mappings: the members are still converted / copied one by one
    "nt_as_dict": dict(cfg="namedtuple_as_dict = True", native=(), no_copy=(), nt_as_dict=True),
}


def staged_genf():
    gen = ref.RefGen()
    gen.union_mode = "staged"
    return gen


# a default that is falsy but not None: an explicit null in the input still has to win over it
FALSY_DEFAULTS = {"int": "0", "float": "0.0", "bool": "False", "str": "''", "H1": "H1(0)", "decimal.Decimal": "decimal.Decimal('0')",
                  "datetime.timedelta": "datetime.timedelta(0)", "bytes": "b''", "IE": "None", "E1": "None"}


def class_source(texpr, dialect="default", fields="xy"):
    d = DIALECTS[dialect]
    src = [PRELUDE, "@dataclass", "class C(DataClassDictMixin):"]
    if "x" in fields:
        src.append(f"    x: {texpr}")
    if "y" in fields and "Final[" not in texpr:
        src.append(f"    y: Optional[{texpr}] = None")
    if "y" in fields and FALSY_DEFAULTS.get(texpr, "None") != "None":
        src.append(f"    z: Optional[{texpr}] = {FALSY_DEFAULTS[texpr]}")
    if d["cfg"]:
        src += ["    class Config(BaseConfig):", "        class dialect(Dialect):", f"            {d['cfg']}"]
    return "\n".join(src) + "\n"


def helper_table(recs):
    """generated helper functions (everything but the entry points), for inlining"""
    table = {}
    for r in recs:
        try:
            mod = ast.parse(r.text)
        except SyntaxError:
            continue
        for n in mod.body:
            if isinstance(n, ast.FunctionDef) and not n.name.startswith("__mashumaro_"):
                table[n.name] = (n, r.globals, None)
    return table


def _ref_env(gen):
    ns = dict(gen.ns)
    if gen.defs:
        exec("\n\n".join(gen.defs), ns)
        gen.ns.update({k: v for k, v in ns.items() if k.startswith("_ref_")})
    table = {}
    if gen.defs:
        for n in ast.parse("\n\n".join(gen.defs)).body:
            table[n.name] = (n, gen.ns, None)
    return table


def _genf(dialect):
    if callable(dialect):
        return dialect
    d = DIALECTS[dialect]
    return lambda: ref.RefGen(native=d["native"], no_copy=d["no_copy"], namedtuple_as_dict=d.get("nt_as_dict", False))


def make_dec_view(cls, dialect, hooks=None, staged=False):
    """view factory for g1.verify_from_dict: conv_f = REF_DEC(annotation)"""
    import typing_extensions

    hints = ref.resolved_hints(cls)
    genf = _genf(dialect)

    def factory(eng, hyps):
        out = []
        for fv in g1.schema_view(cls):
            gen = genf()
            gen.owner = gen.owner or cls
            t = hints[fv.name]
            # field level: nullable fields get None for None (FROM_SPEC), so reference the inner type
            inner = t  # the full annotation (Annotated / NewType aliases are customization keys)
            st_ = ref.strip(t) if not isinstance(g1._strip_annotated(t)[0], typing.TypeVar) else t
            if ref.is_optional(st_):
                rest = [a for a in typing.get_args(st_) if a is not type(None)]
                inner = rest[0] if len(rest) == 1 else st_
                if staged and len(rest) > 1 and fv.default is not None:
                    # regression contract of the unchanged tree: a union with a null member and two
                    # or more other members is not unwrapped at field level
                    fv.nullable = False
            src = gen.dec(inner, "x")
            table = _ref_env(gen)
            sx = pysym.Executor(eng, gen.ns, hooks=hooks or {})
            sx.inline = table
            tree = ast.parse(src, mode="eval").body
            fv.conv_kind = "ref"
            fv.ref_src = src

            def conv_fn(x, sx=sx, tree=tree):
                st = pysym.State({"x": x})
                ctx = pysym.EvalCtx()
                v = sx.eval(tree, st, ctx)
                hyps.extend(ctx.hyps)
                rz = z3.Or(*[c for c, _ in ctx.raises]) if ctx.raises else z3.BoolVal(False)
                return v, rz

            fv.conv_fn = conv_fn
            if src == "x":
                fv.conv_kind = "any"
            out.append(fv)
        return out

    return factory


def make_enc_view(cls, dialect):
    import typing_extensions

    hints = ref.resolved_hints(cls)
    genf = _genf(dialect)

    def factory(eng, hyps, ex):
        out = []
        for fv in g2.pack_view(cls):
            gen = genf()
            gen.owner = gen.owner or cls
            t = hints[fv.name]
            inner = t
            st_ = ref.strip(t)
            if ref.is_optional(st_):
                rest = [a for a in typing.get_args(st_) if a is not type(None)]
                inner = rest[0] if len(rest) == 1 else st_
            src = gen.enc(inner, "x")
            table = _ref_env(gen)
            sx = pysym.Executor(eng, gen.ns, hooks=ex.hooks)
            sx.inline = table
            sx.assume_hasattr = ex.assume_hasattr
            sx.nonraising = ex.nonraising
            sx.nonraising_prefixes = ex.nonraising_prefixes
            tree = ast.parse(src, mode="eval").body
            fv.kind = "ref"
            fv.ref_src = src

            rlist = []

            def pack_fn(x, sx=sx, tree=tree, rlist=rlist):
                env = {"x": x}
                fvals = getattr(ex, "flagvals", {}) or {}
                for nm in ("omit_none", "by_alias", "context", "dialect"):
                    env[nm] = Tm(fvals[nm]) if nm in fvals else Ob(getattr(ex, "flag_defaults", {}).get(nm))
                st = pysym.State(env)
                ctx = pysym.EvalCtx()
                v = sx.eval(tree, st, ctx)
                hyps.extend(ctx.hyps)
                fv_r = z3.Or(*[c for c, _ in ctx.raises]) if ctx.raises else z3.BoolVal(False)
                rlist.append(fv_r)
                return v

            pack_fn.raises = rlist
            fv.pack_fn = pack_fn
            out.append(fv)
        return out

    return factory


def g4_task(payload):
    from . import build

    pid, texpr, dialect, direction = payload
    label = f"[{texpr}]{'' if dialect == 'default' else '@' + dialect}"
    obs = []
    src = class_source(texpr, dialect)
    try:
        mod, recs = build.build_module(src)
    except Exception as e:
        return {"obligations": [dict(id=f"{pid}.G4{label}/builds", status="refuted", unit="class creation",
                                     detail=f"schema does not build: {type(e).__name__}: {e}",
                                     witness={"confirmed": True, "source": src, "why": f"{type(e).__name__}: {e}"})]}
    try:
        cls = mod.C
        table = helper_table(recs)
        trusted = set()
        if direction in ("dec", "both"):
            units = build.find_units(recs, cls, "__mashumaro_from_dict__")
            oid = f"{pid}.G4{label}/ref_dec"
            if len(units) != 1:
                obs.append(dict(id=oid, status="error", detail=f"{len(units)} from_dict units"))
            else:
                rec, fn = units[0]
                pt = g1.Point(())
                object.__setattr__(pt, "exc_details", False)
                try:
                    res = g1.verify_from_dict(cls, fn, dict(rec.globals), pt, view_factory=make_dec_view(cls, dialect), inline=table)
                    obs.append(_ob(oid, res, rec, "REF_DEC", cls, dialect, src))
                    trusted.update(res["trusted"])
                except (pysym.NotInSubset, ref.Unsupported) as e:
                    obs.append(dict(id=oid, status="undecided", detail=f"outside the verified subset: {e}", unit=rec.text[:800]))
        if direction in ("enc", "both"):
            units = build.find_units(recs, cls, "__mashumaro_to_dict__")
            oid = f"{pid}.G4{label}/ref_enc"
            if len(units) != 1:
                obs.append(dict(id=oid, status="error", detail=f"{len(units)} to_dict units"))
            else:
                rec, fn = units[0]
                pp = g2.PPoint(())
                try:
                    res = g2.verify_to_dict(cls, fn, dict(rec.globals), pp, ("cfgd", "cfg"), frozenset(),
                                            view_factory=make_enc_view(cls, dialect), inline=table)
                    obs.append(_ob(oid, res, rec, "REF_ENC", cls, dialect, src))
                    trusted.update(res["trusted"])
                except (pysym.NotInSubset, ref.Unsupported) as e:
                    obs.append(dict(id=oid, status="undecided", detail=f"outside the verified subset: {e}", unit=rec.text[:800]))
        if pid == "C18":
            from . import units

            probs = []
            nunits = 0
            for r in recs:
                try:
                    m = ast.parse(r.text)
                except SyntaxError:
                    continue
                for n in ast.walk(m):
                    if isinstance(n, ast.FunctionDef):
                        nunits += 1
                        params = {a.arg for a in n.args.args + n.args.kwonlyargs} - {"cls"}
                        probs += [f"{n.name}: {p}" for p in units.scan_mutations(n, params)]
            obs.append(dict(id=f"{pid}.G4{label}/frame", status="proved" if not probs else "refuted", unit=f"{nunits} generated functions",
                            detail="; ".join(probs)[:600]))
        return {"obligations": obs, "trusted": sorted(trusted)}
    finally:
        build.drop_module(mod)


def find_witness(cls, what, dialect="default", src=None, call_kw=None):
    """replay: type-directed samples through the real to_dict / from_dict against the reference evaluated
    concretely (REF_ENC / REF_DEC source compiled as ordinary Python)"""
    import dataclasses as _dc

    import typing_extensions

    from . import samples

    if not (hasattr(cls, "to_dict") and hasattr(cls, "from_dict")):
        return None  # a plain dataclass reached through a codec: no public method to replay on
    try:
        hints = ref.resolved_hints(cls)
        bases = samples.dataclass_instances(cls)
    except Exception:
        return None
    if not bases:
        return None
    base = bases[0]
    genf = _genf(dialect)

    def compile_ref(t, direction):
        gen = genf()
        gen.owner = gen.owner or cls
        e = gen.dec(t, "x") if direction == "dec" else gen.enc(t, "x")
        _ref_env(gen)
        return eval("lambda x: " + e, gen.ns)

    for f in _dc.fields(cls):
        t = hints[f.name]
        try:
            enc_ref = compile_ref(t, "enc")
            dec_ref = compile_ref(t, "dec") if what == "REF_DEC" else None
        except Exception:
            continue
        vals = samples.instances(t, cls)
        if what == "REF_ENC":
            for v in vals:
                try:
                    exp = enc_ref(v)
                except Exception:
                    continue
                try:
                    inst = _dc.replace(base, **{f.name: v})
                    got = inst.to_dict(**(call_kw or {}))
                    got = got.get(f.name, "<key missing>")
                    why = None if samples.same(got, exp) else f"to_dict()[{f.name!r}] = {got!r}, the reference gives {exp!r}"
                    if why is None:
                        sh = samples.shared_mutables(got, v)
                        if sh and not samples.shared_mutables(exp, v):
                            why = f"to_dict()[{f.name!r}] shares the mutable container {sh[0]!r} with the instance (the reference result shares nothing)"
                except Exception as e:  # noqa
                    why = f"to_dict() raised {type(e).__name__}: {str(e)[:160]}, the reference gives {exp!r}"
                if why:
                    return {"confirmed": True, "source": src, "input": f"C({f.name}={v!r})" + (f".to_dict({', '.join(k + '=' + getattr(x, '__name__', repr(x)) for k, x in (call_kw or {}).items())})" if call_kw else ""), "why": why}
        else:
            try:
                base_d = base.to_dict(**(call_kw or {}))
            except Exception:
                base_d = {}
            cands = []
            for v in vals:
                try:
                    d = enc_ref(v)
                except Exception:
                    continue
                cands.append(d)
                cands += samples.mutate(d)
            cands += samples.JUNK
            for d in cands:
                try:
                    exp, exp_exc = dec_ref(d), None
                except Exception as e:  # noqa
                    exp, exp_exc = None, e
                try:
                    got, got_exc = getattr(cls.from_dict(dict(base_d, **{f.name: d}), **(call_kw or {})), f.name), None
                except Exception as e:  # noqa
                    got, got_exc = None, e
                why = None
                if exp_exc is not None and got_exc is None:
                    why = f"from_dict returned {f.name}={got!r}, the reference raises {type(exp_exc).__name__}"
                elif exp_exc is None and got_exc is not None:
                    why = f"from_dict raised {type(got_exc).__name__}: {str(got_exc)[:160]}, the reference gives {exp!r}"
                elif exp_exc is None and not samples.same(got, exp):
                    why = f"from_dict gives {f.name}={got!r} ({type(got).__name__}), the reference gives {exp!r} ({type(exp).__name__})"
                if why:
                    return {"confirmed": True, "source": src, "input": f"{{{f.name!r}: {d!r}}}", "why": why}
    return None


def _ob(oid, res, rec, what, cls, dialect=None, src=None, call_kw=None):
    bad = [v for v in res["verdicts"] if v.status != "proved"]
    ob = dict(id=oid, unit=f"C.{'from' if what == 'REF_DEC' else 'to'}_dict", paths=res["paths"], queries=res["queries"],
              solver_s=round(res["solver_s"], 4), backend="z3", sample=rec.text[:1200])
    if not bad:
        ob["status"] = "proved"
    else:
        v0 = ([v for v in bad if v.status == "refuted"] or bad)[0]
        ob["status"] = "refuted" if any(v.status == "refuted" for v in bad) else "unknown"
        ob["detail"] = f"{len(bad)}/{len(res['verdicts'])} paths disagree with {what}; first: {v0.path.kind} {v0.path.value!r} {v0.detail}"[:1200]
        ob["solver_output"] = [f"{v.name}: {v.status} {v.detail}" for v in bad][:20]
        ob["witness"] = None
        if what in ("REF_ENC", "REF_DEC") and dialect is not None:  # the caller names the reference generator the proof used
            try:
                ob["witness"] = find_witness(cls, what, dialect, src, call_kw)
            except Exception as e:  # noqa
                ob["witness_error"] = f"{type(e).__name__}: {e}"[:200]
    if not res["cover"]:
        ob["status"] = "refuted" if ob["status"] == "proved" else ob["status"]
        ob["detail"] = (ob.get("detail", "") + " no feasible returning path (vacuous)").strip()
    return ob


# ---------------------------------------------------------------------------------------------
# codec units (C15) and sharing/frame obligations (C18)
# ---------------------------------------------------------------------------------------------
def codec_source(texpr, dialect="default"):
    d = DIALECTS[dialect]
    src = [PRELUDE, "from mashumaro.codecs.basic import BasicDecoder, BasicEncoder"]
    dd = ""
    if d["cfg"]:
        src += ["class DD(Dialect):", f"    {d['cfg']}"]
        dd = ", default_dialect=DD"
    src.append(f"T = {texpr}")
    src.append(f"DEC = BasicDecoder(T{dd})")
    src.append(f"ENC = BasicEncoder(T{dd})")
    src.append(f"DECL = BasicDecoder(List[T]{dd})")
    src.append(f"ENCL = BasicEncoder(List[T]{dd})")
    return "\n".join(src) + "\n"


def codec_task(payload):
    from . import build, units, harvest

    pid, texpr, dialect = payload
    label = f"[{texpr}]{'' if dialect == 'default' else '@' + dialect}"
    src = codec_source(texpr, dialect)
    try:
        mod, recs = build.build_module(src)
    except Exception as e:
        return {"obligations": [dict(id=f"{pid}.codec{label}/builds", status="refuted", unit="codec creation",
                                     detail=f"codec does not build: {type(e).__name__}: {e}",
                                     witness={"confirmed": True, "source": src, "why": f"{type(e).__name__}: {e}"})]}
    obs = []
    try:
        table = helper_table(recs)
        d = DIALECTS[dialect]
        T = mod.T
        slots = []
        for r in recs:
            slots += [f"record {r.seq}: {p}" for p in units.slot_obligations(r)]
        obs.append(dict(id=f"{pid}.codec{label}/slots", status="proved" if not slots else "refuted",
                        detail="; ".join(slots)[:600], unit="module-level statements of every harvested text"))
        for objname, direction, shape in (("DEC", "dec", T), ("ENC", "enc", T), ("DECL", "dec", typing.List[T]), ("ENCL", "enc", typing.List[T])):
            obj = getattr(mod, objname)
            fname = "decode" if direction == "dec" else "encode"
            oid = f"{pid}.codec{label}/{objname}"
            rec_fn = None
            for r in recs:
                g = r.globals or {}
                if g.get("decoder_obj" if direction == "dec" else "encoder_obj") is obj:
                    m = ast.parse(r.text)
                    fns = [n for n in m.body if isinstance(n, ast.FunctionDef) and n.name == fname]
                    rec_fn = (r, fns[0] if fns else None, m)
            if rec_fn is None:
                obs.append(dict(id=oid, status="error", detail="no harvested unit for the codec object"))
                continue
            r, fn, m = rec_fn
            gen = ref.RefGen(native=d["native"], no_copy=d["no_copy"], namedtuple_as_dict=d.get("nt_as_dict", False))
            gen.static_dataclasses = True
            try:
                if direction == "dec":
                    refsrc = gen.dec(shape, "x")
                else:
                    refsrc = gen.enc(shape, "x")
                if fn is None:
                    # CALL_EXPR shortcut: setattr(obj, 'decode', <callable>): the callable itself must be the reference callee
                    st = m.body[0]
                    callee_src = ast.unparse(st.value.args[2])
                    fn = ast.parse(f"def {fname}(value):\n    return {callee_src}(value)").body[0]
                res = units.verify_unary(fn, dict(r.globals), refsrc, gen, direction=direction, inline=table,
                                         hooks={"call": units.unit_call_hook(units.unit_index(harvest.RECORDER.records))})
            except (pysym.NotInSubset, ref.Unsupported) as e:
                obs.append(dict(id=oid, status="undecided", detail=f"outside the verified subset: {e}", unit=r.text[:600]))
                continue
            bad = [v for v in res["verdicts"] if v.status != "proved"]
            ob = dict(id=oid, unit=f"{objname}.{fname}", paths=res["paths"], queries=res["queries"], solver_s=round(res["solver_s"], 4),
                      backend="z3", sample=r.text[:800] + "  ## REF: " + refsrc)
            if not bad and res["cover"]:
                ob["status"] = "proved"
            else:
                ob["status"] = "refuted" if (any(v.status == "refuted" for v in bad) or not res["cover"]) else "unknown"
                v0 = bad[0] if bad else None
                ob["detail"] = (f"{len(bad)}/{len(res['verdicts'])} paths disagree with the reference {refsrc}; first: {v0.path.kind} {v0.path.value!r}"[:900]
                                if v0 else "no feasible returning path")
                ob["solver_output"] = [f"{v.name}: {v.status} {v.detail}" for v in bad][:10]
            obs.append(ob)
            if res["mutations"]:
                obs.append(dict(id=oid + "/frame", status="refuted", detail="; ".join(res["mutations"])[:500]))
            else:
                obs.append(dict(id=oid + "/frame", status="proved", unit=f"{objname}.{fname}"))
        return {"obligations": obs}
    finally:
        build.drop_module(mod)

"""G2: generated ``__mashumaro_to_dict__`` against PROJECT (property C08).

  PROJECT(o, plain(x)): for the fields in declaration order (sorted by name iff sort_keys),
  skipping serialize="omit" fields:
     key   = alias_f if by_alias_eff and f has an alias else name_f
     value = None if (f nullable and x.f is None) else pack_f(x.f)
     dropped iff (omit_none_eff and x.f is None) or (omit_default_eff and x.f == default_f)
  o_eff: keyword argument if the flag exists and is passed, else the first level that sets the
  option among call dialect > Config.dialect > Config > format (codec default) dialect, else False.
  Nested dataclasses receive exactly the flags that both classes enabled, with the outer values.
"""
from __future__ import annotations

import dataclasses
import itertools
import math
import os
import typing

import z3

from . import pysym, ref
from .pysym import Bl, Call, Exc, Ite, LD, LL, Ob, Tm, _const_key, _short

OPTS = ("omit_none", "omit_default", "serialize_by_alias")
LEVELS = ("call", "cfgd", "cfg", "fmt")


@dataclasses.dataclass(frozen=True)
class PF:
    name: str
    ann: str = "Hs"  # Hs OptHs Any int float Hd OptHd
    default: str = "MISSING"  # MISSING None value nan factory
    alias: str = "-"  # - meta config
    omit: bool = False
    inner_flags: tuple = ()  # code generation flags of the nested class (Hd)

    def label(self):
        return f"{self.name}:{self.ann}/{self.default}/{self.alias}{'/omit' if self.omit else ''}{'/' + '+'.join(self.inner_flags) if self.inner_flags else ''}"


@dataclasses.dataclass(frozen=True)
class PPoint:
    fields: tuple
    # option values per level: dict-like tuples ((level, opt, value), ...)
    opts: tuple = ()
    sort_keys: bool = False
    flags: tuple = ()  # subset of OMIT_NONE_FLAG BY_ALIAS_FLAG DIALECT CONTEXT
    base: str = "mixin"  # mixin | plain (codec)

    def opt(self, level, name):
        for (l, n, v) in self.opts:
            if l == level and n == name:
                return v
        return None

    def has_level(self, level):
        return any(l == level for (l, _, _) in self.opts)

    def label(self):
        o = ",".join(f"{l}.{n[:6] if n != 'serialize_by_alias' else 'alias'}={'T' if v else 'F'}" for l, n, v in self.opts)
        return f"[{'|'.join(f.label() for f in self.fields)}]{{{o}}}{'S' if self.sort_keys else ''}{'+'.join(self.flags)}{'' if self.base == 'mixin' else '@plain'}"


# aliases carry a backslash sequence and a quote: a key is data wherever the generator splices it (C16's concern, exercised
# here on every by-alias path at no extra cost)
ALIAS_PREFIX = "al\\t'"

FLAGNAMES = {
    "N": "TO_DICT_ADD_OMIT_NONE_FLAG",
    "B": "TO_DICT_ADD_BY_ALIAS_FLAG",
    "D": "ADD_DIALECT_SUPPORT",
    "X": "ADD_SERIALIZATION_CONTEXT",
}

PRELUDE = '''
import dataclasses, math
from dataclasses import dataclass, field
import typing
from typing import Any, Optional
from mashumaro import DataClassDictMixin
from mashumaro.config import (BaseConfig, ADD_DIALECT_SUPPORT, TO_DICT_ADD_OMIT_NONE_FLAG,
    TO_DICT_ADD_BY_ALIAS_FLAG, ADD_SERIALIZATION_CONTEXT)
from mashumaro.dialect import Dialect
from mashumaro.types import SerializableType

class _Hole(SerializableType):
    def __init__(self, v=None):
        self.v = v
    def __eq__(self, other):
        return type(self) is type(other) and self.v == other.v
    def __hash__(self):
        return hash((type(self).__name__, repr(self.v)))
    def __repr__(self):
        return f"{type(self).__name__}({self.v!r})"
    def __bool__(self):
        return bool(self.v)
    def _serialize(self):
        return {"hole": type(self).__name__, "v": self.v}
    @classmethod
    def _deserialize(cls, value):
        return cls(value.get("v"))
'''


def _ann(f: PF):
    h = f"H_{f.name}"
    return {"Hs": h, "OptHs": f"Optional[{h}]", "Any": "Any", "int": "int", "float": "float",
            "Hd": f"In_{f.name}", "OptHd": f"Optional[In_{f.name}]"}[f.ann]


def _sample(f: PF):
    h = f"H_{f.name}"
    return {"Hs": f"{h}(1)", "OptHs": f"{h}(1)", "Any": "'x'", "int": "1", "float": "1.0",
            "Hd": f"In_{f.name}(1)", "OptHd": f"In_{f.name}(1)"}[f.ann]


def _default_src(f: PF):
    h = f"H_{f.name}"
    if f.default == "None":
        return "None"
    if f.default == "nan":
        return "float('nan')"
    if f.default in ("value", "factory"):
        return {"Hs": f"{h}(7)", "OptHs": f"{h}(7)", "Any": "'dflt'", "int": "7", "float": "7.5",
                "Hd": f"In_{f.name}(7)", "OptHd": f"In_{f.name}(7)"}[f.ann]
    if f.default == "falsy":
        # falsy but not None: omit_default compares with ==, the explicit-None branch must not treat it as None
        return {"Hs": f"{h}(0)", "OptHs": f"{h}(0)", "Any": "''", "int": "0", "float": "0.0"}[f.ann]
    raise ValueError(f.default)


def class_source(p: PPoint):
    src = [PRELUDE]
    for f in p.fields:
        if f.ann in ("Hs", "OptHs"):
            src.append(f"class H_{f.name}(_Hole): pass")
        if f.ann in ("Hd", "OptHd"):
            src.append("@dataclass")
            src.append(f"class In_{f.name}(DataClassDictMixin):")
            src.append("    z: int = 0")
            if f.inner_flags:
                src.append("    class Config(BaseConfig):")
                src.append(f"        code_generation_options = [{', '.join(FLAGNAMES[x] for x in f.inner_flags)}]")
    for level, cname in (("call", "CallD"), ("cfgd", "CfgD"), ("fmt", "FmtD")):
        if p.has_level(level) or (level == "call" and "D" in p.flags):
            src.append(f"class {cname}(Dialect):")
            body = [f"    {n} = {v}" for (l, n, v) in p.opts if l == level]
            src += body or ["    pass"]
    src.append("@dataclass")
    src.append("class C(DataClassDictMixin):" if p.base == "mixin" else "class C:")
    body = []
    for f in p.fields:
        kw = []
        if f.default == "factory":
            kw.append(f"default_factory=lambda: {_default_src(f)}")
        elif f.default != "MISSING":
            kw.append(f"default={_default_src(f)}")
        md = {}
        if f.alias == "meta":
            md["alias"] = ALIAS_PREFIX + f.name
        if f.omit:
            md["serialize"] = "omit"
        if md:
            kw.append(f"metadata={md!r}")
        body.append(f"{f.name}: {_ann(f)}" + (f" = field({', '.join(kw)})" if kw else ""))
    cfg = []
    for (l, n, v) in p.opts:
        if l == "cfg":
            cfg.append(f"{n} = {v}")
    if p.has_level("cfgd"):
        cfg.append("dialect = CfgD")
    if p.sort_keys:
        cfg.append("sort_keys = True")
    if p.flags:
        cfg.append(f"code_generation_options = [{', '.join(FLAGNAMES[x] for x in p.flags)}]")
    al = {f.name: ALIAS_PREFIX + f.name for f in p.fields if f.alias == "config"}
    if al:
        cfg.append(f"aliases = {al!r}")
    if cfg:
        body.append("class Config(BaseConfig):")
        body += ["    " + c for c in cfg]
    src += ["    " + b for b in body]
    args = ", ".join(f"{f.name}={_sample(f)}" for f in p.fields)
    src.append(f"INST = C({args})")
    if p.base == "mixin":
        if "D" in p.flags:
            src.append("INST.to_dict(dialect=CallD)")
    else:
        src.append("from mashumaro.codecs.basic import BasicEncoder")
        dd = ", default_dialect=FmtD" if p.has_level("fmt") else ""
        src.append(f"ENCODER = BasicEncoder(C{dd})")
    return "\n".join(src) + "\n"


def valid_point(p: PPoint):
    names = [f.name for f in p.fields]
    if len(set(names)) != len(names):
        return False
    if p.base == "mixin" and p.has_level("fmt"):
        return False
    if p.base == "plain" and (p.has_level("call") or "D" in p.flags):
        return False
    if p.has_level("call") and "D" not in p.flags:
        return False
    seen_default = False
    for f in p.fields:
        if f.default == "MISSING":
            if seen_default:
                return False
        else:
            seen_default = True
        if f.default == "nan" and f.ann != "float":
            return False
        if f.default == "None" and f.ann in ("Hs", "int", "float", "Hd"):
            pass
    return True


# ---------------------------------------------------------------------------------------------
# the specification's view of the schema
# ---------------------------------------------------------------------------------------------
class PackView:
    def __init__(self, name, alias, nullable, kind, has_default, default, omit, inner):
        self.name = name
        self.alias = alias
        self.nullable = nullable
        self.kind = kind
        self.has_default = has_default
        self.default = default
        self.omit = omit
        self.inner = inner


def pack_view(cls):
    import typing_extensions

    hints = ref.resolved_hints(cls)
    cfg = getattr(cls, "Config", None)
    cfg_aliases = getattr(cfg, "aliases", {}) or {}
    out = []
    for f in dataclasses.fields(cls):
        t = hints[f.name]
        alias = f.metadata.get("alias")
        if alias is None:
            alias = cfg_aliases.get(f.name)
        nullable = t is typing.Any or t is type(None)
        inner = t
        if typing.get_origin(t) is typing.Union and type(None) in typing.get_args(t):
            nullable = True
            inner = [a for a in typing.get_args(t) if a is not type(None)][0]
        if f.default is None:
            nullable = True
        if inner is typing.Any or inner in (int, float, str, bool):
            kind = "id"
        elif isinstance(inner, type) and hasattr(inner, "_serialize"):
            kind = "hole"
        elif dataclasses.is_dataclass(inner):
            kind = "dc"
        else:
            kind = "other"
        if f.default is not dataclasses.MISSING:
            has_default, default = True, f.default
        elif f.default_factory is not dataclasses.MISSING:
            has_default, default = True, f.default_factory()
        else:
            has_default, default = False, None
        out.append(PackView(f.name, alias, nullable, kind, has_default, default, f.metadata.get("serialize") == "omit", inner))
    return out


def class_flags(cls):
    cfg = getattr(cls, "Config", None)
    return tuple(getattr(cfg, "code_generation_options", ()) or ())


def resolve_option(p: PPoint, name, levels):
    for l in levels:
        v = p.opt(l, name)
        if v is not None:
            return v
    return False


# ---------------------------------------------------------------------------------------------
# verification
# ---------------------------------------------------------------------------------------------
def verify_to_dict(cls, fn_ast, namespace, p: PPoint, levels, passed, timeout_ms=10000, view_factory=None, inline=None, unwrap=None, hooks=None):
    """levels: the option levels in effect for this unit in precedence order;
    passed: frozenset of flag parameter names given by the caller (others take their defaults)"""
    eng = pysym.Engine()
    self_c = eng.fresh("self")
    attrf = {}

    self_terms = [self_c]

    def tm_attr(ex, base, name, node, st, ctx):
        if isinstance(base, Tm) and any(z3.eq(base.t, t) for t in self_terms):
            if name == "__class__":
                return Ob(cls)
            f = eng.func(f"attr!{name}", eng.V, eng.V)
            return Tm(f(base.t))
        return None

    import inspect as _inspect

    fieldnames = {f.name for f in dataclasses.fields(cls)}

    def self_method(ex, recv, name, args, kw, node, st, ctx):
        """self.<helper installed on the class>(...): custom serialization functions"""
        if not (isinstance(recv, Tm) and any(z3.eq(recv.t, t) for t in self_terms)) or name in ex.inline or name in fieldnames:
            return None
        if name.startswith("__mashumaro_") or name in ("__pre_serialize__", "__post_serialize__"):
            return None
        try:
            raw = _inspect.getattr_static(cls, name)
        except AttributeError:
            return None
        if isinstance(raw, staticmethod):
            return ex.call(Ob(raw.__func__), list(args), list(kw), node, st, ctx)
        if _inspect.isfunction(raw):
            return ex.call(Ob(raw), [recv] + list(args), list(kw), node, st, ctx)
        if _inspect.ismethod(raw):
            # a bound method stored on the class (e.g. strategy.serialize of a use_annotations strategy): not re-bound
            return ex.call(Ob(raw), list(args), list(kw), node, st, ctx)
        return None

    hk = {"tm_attr": tm_attr, "method_call": self_method}
    hk.update(hooks or {})
    if hooks and "method_call" in hooks:
        _user_mc = hooks["method_call"]

        def _chained(ex, recv, name, args, kw, node, st, ctx):
            r = _user_mc(ex, recv, name, args, kw, node, st, ctx)
            return r if r is not None else self_method(ex, recv, name, args, kw, node, st, ctx)

        hk["method_call"] = _chained
    ex = pysym.Executor(eng, namespace, hooks=hk)
    if inline:
        ex.inline = inline
    spec_hyps = []
    # preconditions on a conforming instance: hole serialisation and isnan do not raise
    ex.ghost_calls = {("meth", "__pre_serialize__"): "pre", ("meth", "__post_serialize__"): "post"}
    ex.assume_hasattr = not getattr(p, "conforming_classes", False)
    if getattr(p, "conforming_classes", False):
        # union packing: which member's packer runs depends on the class of the value; a method call
        # raises AttributeError iff the class lacks the method and is otherwise total; builtin str is total
        ex.nonraising_prefixes = ("",)
        ex.nonraising.add(_const_key(str))
    ex.nonraising.add(("meth", "copy"))
    ex.nonraising.add(("meth", "_serialize"))
    ex.nonraising.add(("meth", "__mashumaro_to_dict__"))
    ex.nonraising.add(("meth", "__pre_serialize__"))  # A2
    ex.nonraising.add(("meth", "__post_serialize__"))  # A2
    if not getattr(p, "conforming_classes", False):
        ex.nonraising_prefixes = ("__mashumaro_to_dict",)
    if unwrap is not None and getattr(unwrap, "encoder", None) is not None:
        ex.nonraising.add(_const_key(unwrap.encoder))  # A8: the format encoder is outside the claim
    ex.nonraising.add(_const_key(math.isnan))
    params = [a.arg for a in fn_ast.args.args] + [a.arg for a in fn_ast.args.kwonlyargs]
    args = {"self": Tm(self_c)}
    flagvals = {}
    for name in ("omit_none", "by_alias", "context"):
        if name in params and name in passed:
            c = eng.fresh(name)
            args[name] = Tm(c)
            flagvals[name] = c
    if "dialect" in params:
        args["dialect"] = Ob(getattr(p, "dialect_value", None))
    pre = [eng.typeof(self_c) == eng.const(cls)]
    ex.flagvals = flagvals
    hooks_decl = getattr(p, "ser_hooks", ())
    self_in = self_c
    if "pre" in hooks_decl:
        # __pre_serialize__ returns the instance that is serialized (A2: a conforming instance of the class)
        kwh = [("context", Tm(flagvals["context"]) if "context" in flagvals else Ob(None))] if getattr(p, "hook_context", False) else []
        self_eff = eng.term(Call(("meth", "__pre_serialize__"), "meth___pre_serialize__", [Tm(self_c)], kwh))
        self_terms.append(self_eff)
        pre.append(eng.typeof(self_eff) == eng.const(cls))
        self_c = self_eff
    # conforming instance: whatever a packer iterates is iterable
    _v = z3.Const("v!iter", eng.V)
    pre.append(z3.ForAll([_v], eng.iterable(_v), patterns=[eng.iterable(_v)]))
    view = view_factory(eng, spec_hyps, ex) if view_factory else pack_view(cls)
    # conforming instance: a non-nullable field is not None
    for fv in view:
        a = eng.func(f"attr!{fv.name}", eng.V, eng.V)(self_c)
        if not fv.nullable:
            pre.append(a != eng.const(None))
    if getattr(p, "conforming_classes", False):
        import typing_extensions

        hints = ref.resolved_hints(cls)
        for fv in view:
            ks = _member_classes(hints[fv.name])
            if ks:
                a = eng.func(f"attr!{fv.name}", eng.V, eng.V)(self_c)
                pre.append(z3.Or(*[eng.typeof(a) == eng.const(k) for k in ks]))
    paths = ex.run(fn_ast, args, pc=pre)
    if inline:
        # an inlined callee returns a conditional value: one path per alternative
        def _split(path, depth=0):
            v = path.value
            if path.kind == "return" and isinstance(v, pysym.Ite) and depth < 200:
                out = []
                for c, alt in ((v.c, v.a), (z3.Not(v.c), v.b)):
                    q = pysym.Path(path.pc + [c], "return", alt, path.env, path.ghosts, path.branch + [c])
                    out += _split(q, depth + 1)
                return out
            return [path]

        paths = [q for path in paths for q in _split(path)]
    hook_problems = {}
    if hooks_decl or getattr(p, "count_hooks", False):
        for path in paths:
            if path.kind != "return":
                continue
            cnt = {"pre": 0, "post": 0}
            pr = []
            for g in path.ghosts:
                if g[0] == "call" and g[1] in cnt:
                    if not z3.is_true(z3.simplify(g[4])):
                        pr.append(f"{g[1]} hook called conditionally")
                    cnt[g[1]] += 1
            for h in ("pre", "post"):
                want = 1 if h in hooks_decl else 0
                if cnt[h] != want:
                    pr.append(f"__{h}_serialize__ called {cnt[h]} time(s), expected {want}")
            if "post" in hooks_decl:
                v = path.value
                inner_wrap = None
                if unwrap is not None:
                    v, prob0 = unwrap(v, path, eng)
                    if prob0:
                        pr.append(prob0)
                ok = isinstance(v, Call) and v.key == ("meth", "__post_serialize__") and len(v.args) == 2 and isinstance(v.args[0], Tm) and z3.eq(v.args[0].t, self_c)
                if ok:
                    wantkw = ["context"] if getattr(p, "hook_context", False) else []
                    if [k for k, _ in v.kw] != wantkw:
                        pr.append(f"__post_serialize__ keyword arguments {[k for k, _ in v.kw]}, expected {wantkw}")
                    elif wantkw and not (isinstance(v.kw[0][1], Tm) and "context" in flagvals and z3.eq(v.kw[0][1].t, flagvals["context"])) and not (isinstance(v.kw[0][1], Ob) and "context" not in flagvals):
                        pr.append("__post_serialize__ does not receive the call's context unchanged")
                    path.value = v.args[1]
                else:
                    pr.append(f"the result is not __post_serialize__ applied to the produced mapping: {v!r}"[:200])
            if pr:
                hook_problems[id(path)] = "; ".join(pr)
        if "post" in hooks_decl:
            unwrap = None
    if unwrap is not None:
        # format methods: the result must be encoder(<mapping>, <declared encoder kwargs>)
        for path in paths:
            if path.kind == "return":
                path.value, prob = unwrap(path.value, path, eng)
                if prob:
                    path.unwrap_problem = prob
    # --- effective options
    myflags = class_flags(cls)
    from mashumaro.config import TO_DICT_ADD_BY_ALIAS_FLAG, TO_DICT_ADD_OMIT_NONE_FLAG, ADD_SERIALIZATION_CONTEXT, ADD_DIALECT_SUPPORT

    def eff(name, flagname, param):
        base = z3.BoolVal(bool(resolve_option(p, name, levels)))
        if flagname in myflags:
            if param in flagvals:
                return eng.truthy(flagvals[param])
            if param not in params:
                return None  # the flag is enabled but the parameter is missing
        return base

    omit_none = eff("omit_none", TO_DICT_ADD_OMIT_NONE_FLAG, "omit_none")
    by_alias = eff("serialize_by_alias", TO_DICT_ADD_BY_ALIAS_FLAG, "by_alias")
    omit_default = z3.BoolVal(bool(resolve_option(p, "omit_default", levels)))
    problems = []
    if omit_none is None or by_alias is None:
        problems.append("flag enabled in code_generation_options but the generated function lacks the parameter")
        omit_none = omit_none if omit_none is not None else z3.BoolVal(False)
        by_alias = by_alias if by_alias is not None else z3.BoolVal(False)
    # --- spec entries
    entries = []
    spec_raises = []
    order = sorted(view, key=lambda v: v.name) if p.sort_keys else view
    for fv in order:
        if fv.omit:
            continue
        a = eng.func(f"attr!{fv.name}", eng.V, eng.V)(self_c)
        raw = Tm(a)
        rz_f = z3.BoolVal(False)
        if fv.kind == "id":
            packed = raw
        elif fv.kind == "hole":
            packed = Call(("meth", "_serialize"), "meth__serialize", [raw])
        elif fv.kind == "ref":
            packed = fv.pack_fn(raw)
            rz_f = fv.pack_fn.raises[-1]
        elif fv.kind == "dc":
            inner_flags = class_flags(fv.inner)
            kw = []
            for flag, pname in ((TO_DICT_ADD_OMIT_NONE_FLAG, "omit_none"), (TO_DICT_ADD_BY_ALIAS_FLAG, "by_alias"),
                                (ADD_DIALECT_SUPPORT, "dialect"), (ADD_SERIALIZATION_CONTEXT, "context")):
                if flag in inner_flags and flag in myflags:
                    if pname in flagvals:
                        kw.append((pname, Tm(flagvals[pname])))
                    elif pname == "dialect":
                        kw.append((pname, Ob(None)))
                    else:
                        # parameter not passed: its default value is what is forwarded
                        dv = _param_default(fn_ast, pname)
                        kw.append((pname, Ob(dv)))
            packed = Call(("meth", "__mashumaro_to_dict__"), "meth___mashumaro_to_dict__", [raw], kw)
        else:
            raise pysym.NotInSubset(f"spec packer for {fv.inner!r}")
        isnone = a == eng.const(None)
        if fv.nullable:
            value = Ite(isnone, Ob(None), packed)
        else:
            value = packed
        drop = z3.And(omit_none, isnone) if fv.nullable else z3.BoolVal(False)
        if fv.has_default:
            if isinstance(fv.default, float) and fv.default != fv.default:
                key = _const_key(math.isnan)
                isdef = eng.truth(Call(key, _short(math.isnan), [raw]))
            else:
                dflt = _canonical_default(namespace, fv.default)
                if fv.default is None:
                    isdef = isnone
                else:
                    isdef = ex.py_eq(raw, Ob(dflt))
            drop = z3.Or(drop, z3.And(omit_default, isdef))
        if fv.alias is not None:
            keys = [(by_alias, fv.alias), (z3.Not(by_alias), fv.name)]
        else:
            keys = [(z3.BoolVal(True), fv.name)]
        entries.append((fv, z3.Not(drop), keys, value))
        spec_raises.append(z3.And(z3.Not(drop), z3.Not(isnone) if fv.nullable else z3.BoolVal(True), rz_f))
    prover = pysym.Prover(eng, timeout_ms, extra_axioms=pre + spec_hyps)
    verdicts = []
    for i, path in enumerate(paths):
        detail = list(problems)
        if id(path) in hook_problems:
            detail.append(hook_problems[id(path)])
            goal = z3.BoolVal(False)
        elif getattr(path, "unwrap_problem", None):
            detail.append(path.unwrap_problem)
            goal = z3.BoolVal(False)
        else:
            goal = outcome_goal(eng, path, entries, detail, spec_raises) if not problems else z3.BoolVal(False)
        v = prover.prove(f"path{i}", path.pc, goal)
        v.path = path
        v.detail = (v.detail + " " + "; ".join(sorted(set(detail)))).strip()
        verdicts.append(v)
    cover = False
    for path in paths:
        if path.kind == "return":
            r, _ = prover.sat(path.pc)
            if r != z3.unsat:
                cover = True
                break
    return {"verdicts": verdicts, "paths": len(paths), "cover": cover, "queries": prover.queries,
            "solver_s": prover.time_s, "engine": eng, "trusted": sorted(eng.trusted), "flagvals": flagvals,
            "self": self_c, "entries": entries}


def _member_classes(t):
    """exact classes a conforming value of annotation t can have (None if not enumerable)"""
    from . import ref as _ref

    t = _ref.strip(t)
    o = typing.get_origin(t)
    import types as _types
    import typing_extensions as _te

    if o in (typing.Union, _types.UnionType):
        out = []
        for a in typing.get_args(t):
            ks = _member_classes(a)
            if ks is None:
                return None
            out += ks
        return out
    if o in (typing.Literal, _te.Literal):
        out = []
        for v in typing.get_args(t):
            if typing.get_origin(v) in (typing.Literal, _te.Literal):
                out += _member_classes(v)
            else:
                out.append(type(v))
        return out
    if t is type(None) or t is None:
        return [type(None)]
    if t is typing.Any:
        return None
    k = o or t
    if isinstance(k, type) and o is None:
        return [k]
    return None


def _param_default(fn_ast, name):
    a = fn_ast.args
    for x, d in zip(a.kwonlyargs, a.kw_defaults):
        if x.arg == name and isinstance(d, pysym.ast.Constant):
            return d.value
    return None


def _canonical_default(namespace, default):
    """the build-time default object the generated code compares with: an object bound in the
    recorded namespace that equals the documented default (factories are called once at build
    time; == is assumed transitive)"""
    for k, v in namespace.items():
        if k.startswith("v_") and type(v) is type(default):
            try:
                if v == default:
                    return v
            except Exception:
                pass
    return default


def outcome_goal(eng, path, entries, detail, spec_raises=()):
    """a raising path is admitted exactly when the reference packer of some emitted field raises
    (non-conforming instance); a returning path must equal PROJECT and no reference packer raises"""
    anyr = z3.Or(*spec_raises) if spec_raises else z3.BoolVal(False)
    if path.kind != "return":
        if not spec_raises or all(z3.is_false(z3.simplify(r)) for r in spec_raises):
            detail.append(f"unexpected exception path {path.value!r}")
            return z3.BoolVal(False)
        return anyr
    return z3.And(z3.Not(anyr), _mapping_goal(eng, path, entries, detail))


def _mapping_goal(eng, path, entries, detail):
    got = path.value
    if not isinstance(got, LD):
        detail.append(f"result is not a locally built dict: {got!r}")
        return z3.BoolVal(False)
    m, n = len(got.items), len(entries)
    if m > n:
        detail.append("more keys than fields")
        return z3.BoolVal(False)
    alts = []
    for S in itertools.combinations(range(n), m):
        conj = []
        for i in range(n):
            conj.append(entries[i][1] if i in S else z3.Not(entries[i][1]))
        for j, i in enumerate(S):
            k_code, v_code = got.items[j]
            fv, _, keys, value = entries[i]
            kc = [c for (c, k) in keys if pysym._const_eq(k, k_code)]
            conj.append(z3.Or(*kc) if kc else z3.BoolVal(False))
            conj.append(eng.eq_struct(v_code, value))
        alts.append(z3.And(*conj))
    return z3.Or(*alts) if alts else z3.BoolVal(False)


# ---------------------------------------------------------------------------------------------
# concrete oracle / replay
# ---------------------------------------------------------------------------------------------
def project_concrete(cls, inst, p: PPoint, levels, kwargs, plain_twin_value):
    """expected mapping per PROJECT on a concrete instance; plain_twin_value(f, v) packs a value"""
    view = pack_view(cls)
    myflags = class_flags(cls)
    from mashumaro.config import TO_DICT_ADD_BY_ALIAS_FLAG, TO_DICT_ADD_OMIT_NONE_FLAG

    def eff(name, flag, param):
        if flag in myflags and param in kwargs:
            return bool(kwargs[param])
        return bool(resolve_option(p, name, levels))

    omit_none = eff("omit_none", TO_DICT_ADD_OMIT_NONE_FLAG, "omit_none")
    by_alias = eff("serialize_by_alias", TO_DICT_ADD_BY_ALIAS_FLAG, "by_alias")
    omit_default = bool(resolve_option(p, "omit_default", levels))
    out = {}
    order = sorted(view, key=lambda v: v.name) if p.sort_keys else view
    for fv in order:
        if fv.omit:
            continue
        v = getattr(inst, fv.name)
        if omit_none and v is None:
            continue
        if omit_default and fv.has_default:
            d = fv.default
            if isinstance(d, float) and d != d:
                if isinstance(v, float) and v != v:
                    continue
            elif v == d and type(v) is type(d):
                continue
        key = fv.alias if (by_alias and fv.alias is not None) else fv.name
        out[key] = None if v is None else plain_twin_value(fv, v)
    return out


def _pack_plain(fv, v):
    if fv.kind == "hole":
        return v._serialize()
    if fv.kind == "dc":
        return {"z": v.z}
    return v


def instances(cls, mod):
    """concrete instances: every nullable field None / set; defaulted fields at default / other"""
    view = pack_view(cls)
    choices = []
    for fv in view:
        vals = []
        if fv.kind == "hole":
            vals.append(fv.inner(1))
        elif fv.kind == "dc":
            vals.append(fv.inner(1))
        elif fv.inner is float:
            vals += [1.0, float("nan")]
        elif fv.inner is int:
            vals.append(1)
        else:
            vals.append("x")
        if fv.nullable:
            vals.append(None)
        if fv.has_default and not (isinstance(fv.default, float) and fv.default != fv.default):
            vals.append(fv.default)
        choices.append(vals)
    for combo in itertools.product(*choices):
        yield cls(**{fv.name: v for fv, v in zip(view, combo)})


def find_witness(cls, mod, p: PPoint, levels, use_call_dialect, passed_variants):
    n = 0
    for inst in instances(cls, mod):
        for kwargs in passed_variants:
            n += 1
            try:
                kw = dict(kwargs)
                if p.base == "mixin":
                    if use_call_dialect:
                        kw["dialect"] = mod.CallD
                    actual = inst.to_dict(**kw)
                else:
                    if kw:
                        continue
                    actual = mod.ENCODER.encode(inst)
            except Exception as e:  # noqa
                return {"instance": repr(inst), "kwargs": repr(kwargs), "why": f"to_dict raised {type(e).__name__}: {e}", "tried": n}
            expected = project_concrete(cls, inst, p, levels, kwargs, _pack_plain)
            if list(actual.items()) != list(expected.items()) and not _nan_eq(actual, expected):
                return {"instance": repr(inst), "kwargs": repr(kwargs), "expected": repr(expected), "actual": repr(actual),
                        "why": "to_dict differs from PROJECT(options, plain)", "tried": n}
    return None


def _nan_eq(a, b):
    if list(a.keys()) != list(b.keys()):
        return False
    for k in a:
        x, y = a[k], b[k]
        if x != y and not (isinstance(x, float) and isinstance(y, float) and x != x and y != y):
            return False
    return True


# ---------------------------------------------------------------------------------------------
# lattice and worker
# ---------------------------------------------------------------------------------------------
FS_A = (PF("a", "Hs", "MISSING", "meta"), PF("b", "OptHs", "MISSING"), PF("c", "OptHs", "None", "meta"), PF("d", "Hs", "value"))
FS_B = (PF("k", "Any", "MISSING"), PF("e", "Any", "None", "config"), PF("f", "float", "nan"), PF("g", "int", "value", "-", True), PF("h", "OptHs", "value", "meta"))
FS_C = (PF("z", "int", "MISSING"), PF("n", "Hd", "MISSING", "-", False, ("N", "B")), PF("m", "OptHd", "None", "meta", False, ("N",)), PF("y", "Hs", "factory", "meta"))
FS_D = (PF("n", "Hd", "MISSING", "-", False, ()), PF("m", "OptHd", "None", "-", False, ("B", "D", "X")), PF("a", "int", "value", "meta"))
FS_E = (PF("p", "OptHs", "falsy"), PF("q", "Any", "falsy", "meta"), PF("r", "int", "falsy"))
FIELDSETS = (FS_A, FS_B, FS_C, FS_D, FS_E)


def lattice(tier):
    pts = []
    tri = (None, False, True)
    flagsets = [(), ("N",), ("B",), ("N", "B"), ("D",), ("N", "B", "D"), ("N", "B", "D", "X")]
    # (1) each option alone, at every level combination (precedence between levels)
    for opt in OPTS:
        for vals in itertools.product(tri, repeat=4):
            o = tuple((l, opt, v) for l, v in zip(LEVELS, vals) if v is not None)
            for base in ("mixin", "plain"):
                if base == "mixin":
                    oo = tuple(x for x in o if x[0] != "fmt")
                    if len(oo) != len(o):
                        continue
                    flags = ("D",) if any(x[0] == "call" for x in oo) else ()
                    fsets = ((FS_A, FS_B, FS_E) if opt == "omit_default" else (FS_A, FS_B)) if tier == "quick" else FIELDSETS
                    for fs in fsets:
                        pts.append(PPoint(fs, oo, False, flags, base))
                        if tier == "thorough" or opt != "omit_default":
                            pts.append(PPoint(fs, oo, False, tuple(sorted(set(flags) | {"N", "B"})), base))
                else:
                    oo = tuple(x for x in o if x[0] != "call")
                    if len(oo) != len(o) or not any(x[0] == "fmt" for x in oo):
                        continue
                    pts.append(PPoint(FS_A, oo, False, (), base))
                    if tier == "thorough":
                        pts.append(PPoint(FS_B, oo, False, (), base))
    # (2) all options together at the Config level x flag sets x sort_keys
    for vals in itertools.product(tri, repeat=3):
        o = tuple(("cfg", n, v) for n, v in zip(OPTS, vals) if v is not None)
        for flags in flagsets:
            for sk in (False, True):
                fsets = FIELDSETS if tier == "thorough" else (FS_A, FS_B, FS_C, FS_E)
                for fs in fsets:
                    if tier == "quick" and sk and fs is FS_C:
                        continue
                    pts.append(PPoint(fs, o, sk, flags, "mixin"))
    # (3) nested classes: flag (non-)leakage
    for flags in flagsets:
        for vals in itertools.product((None, True), repeat=2):
            o = tuple(("cfg", n, v) for n, v in zip(("omit_none", "serialize_by_alias"), vals) if v is not None)
            pts.append(PPoint(FS_D, o, False, flags, "mixin"))
            pts.append(PPoint(FS_C, o, False, flags, "mixin"))
    # (4) options carried by dialects at two levels at once (thorough: all three options)
    if tier == "thorough":
        for v1 in itertools.product(tri, repeat=3):
            for v2 in itertools.product(tri, repeat=3):
                o = tuple(("call", n, v) for n, v in zip(OPTS, v1) if v is not None) + tuple(("cfgd", n, v) for n, v in zip(OPTS, v2) if v is not None)
                pts.append(PPoint(FS_A, o, False, ("D",), "mixin"))
    seen, out = set(), []
    for p in pts:
        k = p.label()
        if k in seen or not valid_point(p):
            continue
        seen.add(k)
        out.append(p)
    return out


def g2_task(payload):
    from . import build

    pid, p = payload
    label = p.label()
    obs = []
    try:
        mod, recs = build.build_module(class_source(p))
    except Exception as e:
        return {"obligations": [dict(id=f"{pid}.G2{label}/builds", status="refuted", unit="class creation",
                                     detail=f"schema does not build or the first call fails: {type(e).__name__}: {e}",
                                     witness={"confirmed": True, "source": class_source(p), "why": f"{type(e).__name__}: {e}"})]}
    try:
        cls = mod.C
        units = []
        for r in recs:
            b = r.builder
            if b is None or b.cls is not cls:
                continue
            m = pysym.ast.parse(r.text)
            for n in m.body:
                if isinstance(n, pysym.ast.FunctionDef) and n.name == "__mashumaro_to_dict__":
                    units.append((r, n, b.dialect))
        if not units:
            return {"obligations": [dict(id=f"{pid}.G2{label}/to_dict", status="error", detail="no harvested to_dict unit")]}
        trusted = set()
        for (r, fn, dialect) in units:
            if dialect is None:
                levels = ("cfgd", "cfg", "fmt") if p.base == "plain" else ("cfgd", "cfg")
                uname = "default"
            else:
                levels = ("call", "cfgd", "cfg")
                uname = "call-dialect"
            params = [a.arg for a in fn.args.kwonlyargs]
            flagparams = [x for x in ("omit_none", "by_alias") if x in params]
            variants = []
            for k in range(len(flagparams) + 1):
                for sub in itertools.combinations(flagparams, k):
                    variants.append(frozenset(sub) | ({"context"} if "context" in params else set()))
            for passed in variants:
                tag = "+".join(sorted(x for x in passed if x != "context")) or "none"
                oid = f"{pid}.G2{label}/{uname}/passed={tag}"
                ns = dict(r.globals)
                try:
                    res = verify_to_dict(cls, fn, ns, p, levels, passed)
                except pysym.NotInSubset as e:
                    obs.append(dict(id=oid, status="undecided", detail=f"outside the verified subset: {e}", unit=r.text[:600]))
                    continue
                trusted.update(res["trusted"])
                bad = [v for v in res["verdicts"] if v.status != "proved"]
                ob = dict(id=oid, unit=f"C.__mashumaro_to_dict__[{uname}]", paths=res["paths"], queries=res["queries"],
                          solver_s=round(res["solver_s"], 4), backend="z3", sample=r.text[:1500])
                if not bad:
                    ob["status"] = "proved"
                else:
                    v0 = ([v for v in bad if v.status == "refuted"] or bad)[0]
                    ob["status"] = "refuted" if any(v.status == "refuted" for v in bad) else "unknown"
                    ob["detail"] = f"{len(bad)}/{len(res['verdicts'])} paths disagree with PROJECT; first: {v0.path.kind} {v0.path.value!r} {v0.detail}"[:900]
                    ob["solver_output"] = [f"{v.name}: {v.status} {v.detail}" for v in bad][:20]
                    pv = []
                    for k in range(len(flagparams) + 1):
                        for sub in itertools.combinations(flagparams, k):
                            for vals in itertools.product((False, True), repeat=len(sub)):
                                pv.append(dict(zip(sub, vals)))
                    w = find_witness(cls, mod, p, levels, dialect is not None, pv)
                    if w:
                        w["confirmed"] = True
                        w["source"] = class_source(p)
                    ob["witness"] = w
                    ob["replay"] = {"kind": "g2", "point": _point_json(p), "levels": list(levels), "call_dialect": dialect is not None}
                obs.append(ob)
                if not res["cover"]:
                    obs.append(dict(id=oid + "/cover", status="refuted", detail="no feasible returning path"))
        obs += _dispatch_obligations(pid, label, cls, mod, p, units)
        return {"obligations": obs, "trusted": sorted(trusted)}
    finally:
        build.drop_module(mod)


def _dispatch_obligations(pid, label, cls, mod, p, units):
    """end to end: to_dict(dialect=D, **passed) through the default unit's dialect branch into the unit
    compiled for D (inlined; the per-class cache is in its state after the first call) equals PROJECT with
    the levels keyword > call dialect > Config.dialect > Config.  Only for schemas without nested classes
    (the inlined callee is keyed by method name)."""
    default = [(r, fn) for (r, fn, d) in units if d is None and "dialect" in [a.arg for a in fn.args.kwonlyargs]]
    called = [(r, fn, d) for (r, fn, d) in units if d is not None]
    if not default or not called or any(f.ann in ("Hd", "OptHd") for f in p.fields):
        return []
    obs = []
    r0, fn0 = default[0]
    r1, fn1, dialect = called[0]
    params = [a.arg for a in fn0.args.kwonlyargs]
    flagparams = [x for x in ("omit_none", "by_alias") if x in params]
    if not flagparams:
        return []

    caches = [v for k, v in vars(cls).items() if k.startswith("__dialect_") and k.endswith("_cache__") and isinstance(v, dict)]

    def cache_hook(ex, fnv, args, kw, node, st, ctx):
        o = fnv.o if isinstance(fnv, Ob) else None
        if getattr(o, "__name__", "") == "get" and any(getattr(o, "__self__", None) is c for c in caches):
            return Ob(("closure", fn1))
        return None

    p2 = dataclasses.replace(p)
    object.__setattr__(p2, "dialect_value", dialect)
    for k in range(len(flagparams) + 1):
        for sub in itertools.combinations(flagparams, k):
            passed = frozenset(sub) | ({"context"} if "context" in params else set())
            tag = "+".join(sorted(sub)) or "none"
            # structural tag: a flag parameter that is not passed is forwarded with the default unit's own default,
            # which differs from the option the call dialect carries (known finding F-C08-flag-default-over-dialect)
            optname = {"omit_none": "omit_none", "by_alias": "serialize_by_alias"}
            differs = any(resolve_option(p, optname[f], ("call", "cfgd", "cfg")) != resolve_option(p, optname[f], ("cfgd", "cfg")) for f in flagparams if f not in sub)
            oid = f"{pid}.G2{label}/dispatch{{flag-default}}/passed={tag}" if differs else f"{pid}.G2{label}/dispatch/passed={tag}"
            try:
                res = verify_to_dict(cls, fn0, dict(r0.globals), p2, ("call", "cfgd", "cfg"), passed,
                                     inline={fn1.name: (fn1, dict(r1.globals), None)}, hooks={"call": cache_hook})
            except pysym.NotInSubset as e:
                obs.append(dict(id=oid, status="undecided", detail=f"outside the verified subset: {e}", unit=r0.text[:600]))
                continue
            bad = [v for v in res["verdicts"] if v.status != "proved"]
            ob = dict(id=oid, unit="C.__mashumaro_to_dict__[default -> call-dialect unit]", paths=res["paths"], queries=res["queries"],
                      solver_s=round(res["solver_s"], 4), backend="z3", sample=r0.text[:1500])
            if not bad:
                ob["status"] = "proved"
            else:
                v0 = ([v for v in bad if v.status == "refuted"] or bad)[0]
                ob["status"] = "refuted" if any(v.status == "refuted" for v in bad) else "unknown"
                ob["detail"] = (f"to_dict(dialect=D{''.join(', ' + x + '=..' for x in sorted(sub))}) disagrees with PROJECT under keyword > call dialect > Config.dialect > Config on "
                                f"{len(bad)}/{len(res['verdicts'])} paths; first: {v0.path.kind} {v0.path.value!r} {v0.detail}")[:900]
                pv = [dict(zip(sub, vals)) for vals in itertools.product((False, True), repeat=len(sub))]
                w = find_witness(cls, mod, p, ("call", "cfgd", "cfg"), True, pv)
                if w:
                    w["confirmed"] = True
                    w["source"] = class_source(p)
                ob["witness"] = w
            obs.append(ob)
    return obs


def _point_json(p):
    d = dataclasses.asdict(p)
    return d


def point_from_json(d):
    d = dict(d)
    fields = tuple(PF(**{**f, "inner_flags": tuple(f.get("inner_flags", ()))}) for f in d.pop("fields"))
    d["opts"] = tuple(tuple(x) for x in d["opts"])
    d["flags"] = tuple(d["flags"])
    return PPoint(fields, **d)

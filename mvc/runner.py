"""check runner: process pool over tasks, known-findings matching, replay files, evidence, exit code.

Exit codes: 0 all obligations discharged (known findings printed); 1 violation (an obligation
refuted or no longer provable that is not a listed finding); 2 undecided only; 3 checker crash.
"""
from __future__ import annotations

import json
import multiprocessing as mp
import os
import re
import sys
import time
import traceback

ROOT = os.path.dirname(os.path.dirname(os.path.abspath(__file__)))
EVID = os.environ.get("VERIF_EVIDENCE_DIR") or os.path.join(ROOT, "evidence")
REPLAYS = os.environ.get("VERIF_REPLAY_DIR") or os.path.join(ROOT, "replays")
KNOWN = os.path.join(ROOT, "known_findings.json")

GENERAL_ASSUMPTIONS = [
    "A1 soundness of pysym's encoding of the Python subset (DESIGN.md section 2) and of z3/cvc5",
    "A2 user code reachable from generated code (hooks, __post_init__, strategies, hole methods) is pure and raises only where a contract says so",
    "A3 opaque callees raise only Exception subclasses; no asynchronous exceptions / MemoryError / RecursionError",
    "A4 table of non-mutating builtin methods; dict insertion order; comprehension scoping; != is the negation of ==",
    "extraction: generated code is harvested by rebinding the module-global name exec of the emitting modules; zero harvested units fails closed",
    "environment: CPython 3.12 of /venv only",
]


class Obligation(dict):
    """id, status (proved|refuted|unknown|undecided|error), detail, unit, paths, queries,
    solver_s, backend, witness (dict|None), sample (str)"""


def _safe(fn, payload):
    try:
        return fn(payload)
    except BaseException as e:  # noqa
        return {"crash": f"{type(e).__name__}: {e}", "trace": traceback.format_exc(), "payload": repr(payload)[:400]}


def _init_worker():
    sys.setrecursionlimit(10000)


def run_pool(worker, payloads, procs=None, chunks=1):
    procs = procs or min(16, os.cpu_count() or 4)
    if len(payloads) <= 1 or procs == 1:
        return [_safe(worker, p) for p in payloads]
    ctx = mp.get_context("fork")
    with ctx.Pool(procs, initializer=_init_worker, maxtasksperchild=200) as pool:
        res = pool.starmap(_safe, [(worker, p) for p in payloads], chunksize=chunks)
    return res


def load_known(pid):
    if not os.path.exists(KNOWN):
        return [], []
    data = json.load(open(KNOWN))
    findings = [f for f in data.get("findings", []) if f.get("property") == pid]
    fixed = [f for f in data.get("fixed", []) if f.get("property") == pid]
    return findings, fixed


def match_known(findings, ob):
    for f in findings:
        if not re.search(f["obligation"], ob["id"]):
            continue
        sig = f.get("signature")
        if sig:
            hay = json.dumps(ob.get("witness") or {}, default=repr) + " " + str(ob.get("detail", ""))
            if not re.search(sig, hay):
                continue
        return f
    return None


def finish(pid, tier, obligations, t0, *, level="proof", technique="", units=None, extra_cov=None,
           assumptions=(), trusted=(), bounded=None, crashes=(), functions=(), checker_cmd=None):
    """classify, write replay files and evidence, print lines, return exit code"""
    os.makedirs(EVID, exist_ok=True)
    findings, fixed = load_known(pid)
    seed = int(os.environ.get("VERIF_SEED", "0") or 0)
    proved = [o for o in obligations if o["status"] == "proved"]
    failed = [o for o in obligations if o["status"] in ("refuted", "unknown")]
    undecided = [o for o in obligations if o["status"] in ("undecided",)]
    errors = [o for o in obligations if o["status"] == "error"]
    known_hits = {}
    violations = []
    for o in failed:
        f = match_known(findings, o)
        if f is not None:
            known_hits.setdefault(f["id"], []).append(o)
        else:
            violations.append(o)
    lines = []
    for f in findings:
        hits = known_hits.get(f["id"], [])
        if hits:
            lines.append(f"KNOWN-FINDING: property={pid} {f['id']}: {f['description']} ({len(hits)} obligation(s))")
    vio_lines = []
    import shutil

    shutil.rmtree(os.path.join(REPLAYS, pid), ignore_errors=True)
    if violations:
        os.makedirs(os.path.join(REPLAYS, pid), exist_ok=True)
    for n, o in enumerate(violations):
        path = os.path.join(REPLAYS, pid, re.sub(r"[^A-Za-z0-9_.-]+", "_", o["id"])[:150] + f".{n}.json")
        w = o.get("witness")
        rec = {
            "property": pid,
            "obligation": o["id"],
            "status": o["status"],
            "detail": o.get("detail"),
            "verifier_output": o.get("solver_output"),
            "witness": w,
            "replay": o.get("replay"),
            "how": f"./check {pid} --replay {path}",
        }
        with open(path, "w") as fh:
            json.dump(rec, fh, indent=1, default=repr)
        suffix = "" if (w and w.get("confirmed")) else " no-failing-input-found"
        vio_lines.append(f"VIOLATION property={pid} replay={path}{suffix}")
    wall = time.time() - t0
    n_claim = len(obligations) - sum(len(v) for v in known_hits.values())
    status_counts = {}
    for o in obligations:
        status_counts[o["status"]] = status_counts.get(o["status"], 0) + 1
    backends = {}
    for o in obligations:
        b = o.get("backend", "z3")
        backends[b] = backends.get(b, 0) + 1
    samples = []
    for o in (proved[:3] + failed[:3]):
        samples.append({k: o.get(k) for k in ("id", "status", "unit", "paths", "queries", "solver_s", "sample", "detail") if o.get(k) is not None})
    cov = {
        "obligations": n_claim,
        "discharged": len(proved),
        "known_failing": sum(len(v) for v in known_hits.values()),
        "known_findings": sorted(known_hits),
        "undecided": len(undecided),
        "errors": len(errors) + len(crashes),
        "checker_cmd": checker_cmd or f"./check {pid} --tier {tier}",
        "trusted_base": sorted(set(trusted)),
        "status_counts": status_counts,
        "backends": backends,
        "solver_s": round(sum(o.get("solver_s", 0) or 0 for o in obligations), 3),
        "smt_queries": sum(o.get("queries", 0) or 0 for o in obligations),
        "paths": sum(o.get("paths", 0) or 0 for o in obligations),
        "functions_under_contract": sorted(set(functions)),
        "units": units,
        "samples": samples or [{"note": "no obligations"}],
        "bounded": bounded or [],
        "technique": technique,
    }
    if extra_cov:
        cov.update(extra_cov)
    ev = {
        "property_id": pid,
        "tier": tier,
        "seed": seed,
        "level": level,
        "coverage": cov,
        "assumptions": list(GENERAL_ASSUMPTIONS) + list(assumptions),
        "wall_s": round(wall, 2),
        "violations": len(violations),
    }
    with open(os.path.join(EVID, f"{pid}.json"), "w") as fh:
        json.dump(ev, fh, indent=1, default=repr)
    for l in lines:
        print(l)
    for c in crashes:
        print(f"CHECKER-ERROR: {c}")
    for o in errors[:10]:
        print(f"CHECKER-ERROR: {o['id']}: {o.get('detail')}")
    for o in undecided[:10]:
        print(f"UNDECIDED: {o['id']}: {o.get('detail')}")
    for o, l in zip(violations, vio_lines):
        print(f"  failed obligation {o['id']}: {o['status']} {str(o.get('detail') or '')[:300]}")
        if o.get("witness"):
            print(f"    witness: {json.dumps(o['witness'], default=repr)[:600]}")
    for l in vio_lines[:50]:
        print(l)
    print(
        f"{pid} [{tier}] obligations={n_claim} discharged={len(proved)} known-failing={cov['known_failing']} "
        f"violations={len(violations)} undecided={len(undecided)} errors={cov['errors']} wall={wall:.1f}s"
    )
    if violations:
        return 1
    if crashes or errors:
        return 3
    if n_claim == 0 or not proved:
        print("CHECKER-ERROR: no obligations were generated (vacuous run)")
        return 3
    if undecided:
        return 2
    return 0

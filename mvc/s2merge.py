"""S2: dialect.py:Dialect.merge - whole-view postcondition and frame, proved on the real AST.

  for every option attribute o declared in class Dialect other than serialization_strategy
  (enumerated from the class body by AST, so a new option is covered automatically):
        result.o = other.o if other.o is not MISSING else cls.o
  for every key k (pointwise):  a = cls.ss.get(k), b = other.ss.get(k)
        b absent                         -> result.ss[k] = a            (a dict: a fresh copy)
        b strategy, or a strategy        -> result.ss[k] is b
        b dict and a absent/dict         -> result.ss[k] = fresh {**a, **b}
        both absent                      -> k not in result.ss
  frame: nothing reachable from cls or other is mutated (every in-place update lands on an object
  allocated by merge itself).

Loop rules (DESIGN 2.5): `for key in (<literal tuple>)` unrolled completely; the two
`for key, value in X.items()` loops are *pointwise map loops* (the body writes only result[key] and
reads result only at key - checked syntactically), so they are analysed at one symbolic key k:
the body runs once under `k in X`, with value = X[k].
"""
from __future__ import annotations

import ast

import z3

from . import pysym
from .pysym import Bl, Call, Exc, Ite, LD, LL, Ob, Tm


class Fresh(pysym.SymVal):
    """an object allocated by the function under analysis: a dict built from parts"""

    is_local_object = True

    def __init__(self, parts):
        self.parts = list(parts)  # [('copy', term) | ('update', term) | ('empty',)]

    def __repr__(self):
        return f"Fresh({self.parts})"


class NewCls(pysym.SymVal):
    is_local_object = True

    def __init__(self, attrs=None):
        self.attrs = dict(attrs or {})

    def __repr__(self):
        return f"NewCls({self.attrs})"


def _pointwise_ok(loop: ast.For, dname: str):
    """body writes only dname[key] (or through dname.setdefault(key, ..)) and reads dname only at key"""
    if not (isinstance(loop.target, ast.Tuple) and len(loop.target.elts) == 2 and all(isinstance(e, ast.Name) for e in loop.target.elts)):
        return False
    key = loop.target.elts[0].id
    for n in ast.walk(loop):
        if isinstance(n, ast.Subscript) and isinstance(n.value, ast.Name) and n.value.id == dname:
            if not (isinstance(n.slice, ast.Name) and n.slice.id == key):
                return False
        if isinstance(n, ast.Call) and isinstance(n.func, ast.Attribute) and isinstance(n.func.value, ast.Name) and n.func.value.id == dname:
            if n.func.attr not in ("get", "setdefault") or not (n.args and isinstance(n.args[0], ast.Name) and n.args[0].id == key):
                return False
        if isinstance(n, ast.Name) and n.id == dname and isinstance(n.ctx, ast.Store):
            return False
    return True


def verify_merge(pid="C13", src_path="/repo/mashumaro/dialect.py"):
    import mashumaro.dialect as D
    from mashumaro.core.const import Sentinel
    from mashumaro.types import SerializationStrategy

    src = open(src_path).read()
    mod = ast.parse(src)
    cdef = [n for n in mod.body if isinstance(n, ast.ClassDef) and n.name == "Dialect"][0]
    fn = [n for n in cdef.body if isinstance(n, ast.FunctionDef) and n.name == "merge"][0]
    options = [n.target.id for n in cdef.body if isinstance(n, ast.AnnAssign) and isinstance(n.target, ast.Name)]
    obs = []
    opts = [o for o in options if o != "serialization_strategy"]
    if "serialization_strategy" not in options or not opts:
        return [dict(id=f"{pid}.S2[Dialect.merge]/options", status="undecided", detail="class body has no annotated option attributes")]
    eng = pysym.Engine()
    MISSING = Sentinel.MISSING
    cls_t, other_t = eng.fresh("cls"), eng.fresh("other")
    Mc, Mo = eng.fresh("cls_ss"), eng.fresh("other_ss")
    k = eng.fresh("k")
    mutated = []
    attr = lambda o, name: eng.func(f"attr!{name}", eng.V, eng.V)(o)  # noqa

    class Ex(pysym.Executor):
        def getattr(self, base, name, node, st, ctx):
            if isinstance(base, Tm) and (z3.eq(base.t, cls_t) or z3.eq(base.t, other_t)):
                if name == "serialization_strategy":
                    return Tm(Mc if z3.eq(base.t, cls_t) else Mo)
                return Tm(attr(base.t, name))
            if isinstance(base, NewCls):
                return base.attrs.get(name, Ob(MISSING))
            return super().getattr(base, name, node, st, ctx)

        def st_For(self, s, st):
            # pointwise map loop over X.items() at the symbolic key k
            it = s.iter
            if (isinstance(it, ast.Call) and isinstance(it.func, ast.Attribute) and it.func.attr == "items"
                    and ast.unparse(it.func.value) in ("cls.serialization_strategy", "other.serialization_strategy")):
                if not _pointwise_ok(s, "serialization_strategy"):
                    raise pysym.NotInSubset("loop over .items() is not a pointwise map loop", s)
                M = Mc if ast.unparse(it.func.value).startswith("cls") else Mo
                present = eng.haskey(M, k)
                skip = st.clone()
                skip.pc.append(z3.Not(present))
                run = st.clone()
                run.pc.append(present)
                run.env[s.target.elts[0].id] = Tm(k)
                run.env[s.target.elts[1].id] = Tm(eng.dval(M, k))
                out = [(skip, None)]
                for (c2, sig) in self.exec_block(s.body, run):
                    out.append((c2, None if (sig is None or sig[0] == "continue") else sig))
                return out
            return super().st_For(s, st)

        def st_AnnAssign(self, s, st):
            if s.value is None:
                return [(st, None)]
            return self.st_Assign(ast.copy_location(ast.Assign(targets=[s.target], value=s.value), s), st)

        def isinstance_(self, v, cls, node):
            if isinstance(v, Fresh) and isinstance(cls, Ob) and isinstance(cls.o, type):
                return z3.BoolVal(issubclass(dict, cls.o))
            return super().isinstance_(v, cls, node)

        def st_Assign(self, s, st):
            t = s.targets[0]
            if isinstance(t, ast.Subscript) and isinstance(t.value, ast.Name) and t.value.id == "serialization_strategy":
                oks, bad = self._fork_eval(s.value, st)
                out = [(b, ("raise", e)) for b, e in bad]
                for a, v in oks:
                    a.env["__slot__"] = v  # result.ss[k]
                    out.append((a, None))
                return out
            if isinstance(t, ast.Attribute) and isinstance(t.value, ast.Name) and isinstance(st.env.get(t.value.id), NewCls):
                oks, bad = self._fork_eval(s.value, st)
                out = [(b, ("raise", e)) for b, e in bad]
                for a, v in oks:
                    nc = a.env[t.value.id]
                    a.env[t.value.id] = NewCls({**nc.attrs, t.attr: (Ob("<the merged mapping>") if (isinstance(v, LD) and s.value.__class__ is ast.Name) else v)})
                    out.append((a, None))
                return out
            return super().st_Assign(s, st)

        def st_Expr(self, s, st):
            v = s.value
            if isinstance(v, ast.Call) and isinstance(v.func, ast.Name) and v.func.id == "setattr":
                oks, bad = [], []
                ctx = pysym.EvalCtx()
                tgt = self.eval(v.args[0], st, ctx)
                nm = self.eval(v.args[1], st, ctx)
                val = self.eval(v.args[2], st, ctx)
                oks, bad = self._fork_ctx(st, ctx, None)
                out = [(b, ("raise", e)) for b, e in bad]
                for a, _ in oks:
                    if isinstance(tgt, NewCls) and isinstance(nm, Ob):
                        name = [n_ for n_, o_ in a.env.items() if o_ is tgt]
                        for n_ in name:
                            a.env[n_] = NewCls({**a.env[n_].attrs, nm.o: val})
                    else:
                        mutated.append((list(a.pc), f"setattr on {tgt!r}"))
                    out.append((a, None))
                return out
            return super().st_Expr(s, st)

        def method_call(self, recv, name, args, kw, node, st, ctx):
            if name == "copy" and isinstance(recv, Tm):
                return Fresh([("copy", recv.t)])
            if name == "setdefault" and isinstance(recv, LD) and len(args) == 2 and isinstance(args[0], Tm):
                if st.env.get("__slot__") is None:
                    d = args[1]
                    st.env["__slot__"] = Fresh([("empty",)]) if (isinstance(d, LD) and not d.items) else d
                return st.env["__slot__"]
            if name == "update" and len(args) == 1 and not kw and isinstance(recv, (Fresh, Tm)):
                if isinstance(recv, Fresh) and st.env.get("__slot__") is recv:
                    st.env["__slot__"] = Fresh(recv.parts + [("update", eng.term(args[0]))])
                else:
                    mutated.append((list(st.pc) + list(ctx.guard), f"in-place update of {recv!r}, which is reachable from an argument"))
                return Ob(None)
            if name == "get" and isinstance(recv, LD) and args and isinstance(args[0], Tm):
                cur = st.env.get("__slot__")
                return cur if cur is not None else (args[1] if len(args) > 1 else Ob(None))
            return super().method_call(recv, name, args, kw, node, st, ctx)

        def ev_NamedExpr(self, node, st, ctx):
            v = self.eval(node.value, st, ctx)
            st.env[node.target.id] = v
            return v

    def call(ex, fnv, args, kw, node, st, ctx):
        o = fnv.o if isinstance(fnv, Ob) else None
        if getattr(o, "__name__", "") == "new_class":
            return NewCls()
        if getattr(o, "__name__", "") == "cast":
            return args[1]
        if o is getattr and len(args) == 2 and isinstance(args[0], Tm) and isinstance(args[1], Ob):
            return Tm(attr(args[0].t, args[1].o))
        return None

    ex = Ex(eng, dict(D.__dict__), hooks={"call": call})
    ex.assume_hasattr = True
    ex.nonraising_prefixes = ("",)
    try:
        paths = ex.run(fn, {"cls": Tm(cls_t), "other": Tm(other_t)})
    except pysym.NotInSubset as e:
        return [dict(id=f"{pid}.S2[Dialect.merge]/executes", status="undecided", detail=f"outside the verified subset: {e}")]
    prover = pysym.Prover(eng, 10000)
    SS = eng.const(SerializationStrategy)
    a_t, b_t = eng.dval(Mc, k), eng.dval(Mo, k)
    ina, inb = eng.haskey(Mc, k), eng.haskey(Mo, k)
    a_strat = eng.issub(eng.typeof(a_t), SS)
    b_strat = eng.issub(eng.typeof(b_t), SS)
    probs_opt, probs_ss, unknown = [], [], []
    for p in paths:
        if p.kind != "return" or not isinstance(p.value, NewCls):
            if prover.sat(p.pc)[0] != z3.unsat:
                probs_opt.append(f"path does not return the new dialect class: {p.kind} {p.value!r}")
            continue
        if prover.sat(p.pc)[0] == z3.unsat:
            continue
        nc = p.value
        # ---- options
        for o in opts:
            got = nc.attrs.get(o)
            if got is None:
                probs_opt.append(f"option {o!r} of the result is never set (falls back to Dialect.{o} = MISSING)")
                continue
            want = z3.If(attr(other_t, o) != eng.const(MISSING), attr(other_t, o), attr(cls_t, o))
            v = prover.prove(o, p.pc, eng.term(got) == want)
            if v.status == "unknown":
                unknown.append(v.detail)
            if v.status != "proved":
                probs_opt.append(f"option {o!r}: result is not (other.{o} if set else cls.{o})")
        if "serialization_strategy" not in nc.attrs:
            probs_ss.append("result.serialization_strategy is not assigned")
        # ---- strategies at key k
        slot = p.env.get("__slot__")

        def holds(goal):
            v = prover.prove("ss", p.pc, goal)
            if v.status == "unknown":
                unknown.append(v.detail)
            return v.status == "proved"

        if slot is None:
            if not holds(z3.And(z3.Not(ina), z3.Not(inb))):
                probs_ss.append("a key present in one of the arguments is missing from the result")
        elif isinstance(slot, Tm):
            # aliasing an argument's value is right only for strategy objects / other's value over a strategy
            ok = holds(z3.Or(z3.And(inb, slot.t == b_t, z3.Or(b_strat, z3.And(ina, a_strat))), z3.And(z3.Not(inb), ina, slot.t == a_t, a_strat)))
            if not ok:
                probs_ss.append(f"result[k] aliases an argument's mutable value or is the wrong one: {slot!r}")
        elif isinstance(slot, Fresh):
            parts = slot.parts
            kinds = [x[0] for x in parts]
            if kinds == ["copy"]:
                if not holds(z3.And(ina, z3.Not(inb), z3.Not(a_strat), parts[0][1] == a_t)):
                    probs_ss.append("result[k] is a copy of cls's value although other also registers k (or it is not cls's value)")
            elif kinds == ["copy", "update"]:
                if not holds(z3.And(ina, inb, z3.Not(a_strat), z3.Not(b_strat), parts[0][1] == a_t, parts[1][1] == b_t)):
                    probs_ss.append("result[k] is not {**cls[k], **other[k]}")
            elif kinds == ["empty", "update"]:
                if not holds(z3.And(z3.Not(ina), inb, z3.Not(b_strat), parts[1][1] == b_t)):
                    probs_ss.append("result[k] is not a fresh copy of other[k]")
            else:
                probs_ss.append(f"unexpected construction of result[k]: {parts}")
        else:
            probs_ss.append(f"unexpected value for result[k]: {slot!r}")
    frame = []
    for pc, what in mutated:
        if prover.sat(pc)[0] != z3.unsat:
            frame.append(what)
    if unknown:
        return [dict(id=f"{pid}.S2[Dialect.merge]/options", status="undecided", detail=f"solver gave unknown: {unknown[:2]}")]
    obs.append(dict(id=f"{pid}.S2[Dialect.merge]/options", status="proved" if not probs_opt else "refuted", unit="dialect.py:Dialect.merge", paths=len(paths),
                    detail="; ".join(sorted(set(probs_opt)))[:600] + (f" (options from the class body: {opts})" if probs_opt else ""), sample=f"options: {opts}",
                    witness=_merge_witness() if probs_opt else None))
    obs.append(dict(id=f"{pid}.S2[Dialect.merge]/strategies", status="proved" if not probs_ss else "refuted", unit="dialect.py:Dialect.merge (pointwise at a symbolic key)",
                    detail="; ".join(sorted(set(probs_ss)))[:600], witness=_merge_witness() if probs_ss else None))
    obs.append(dict(id=f"{pid}.S2[Dialect.merge]/frame", status="proved" if not frame else "refuted", unit="dialect.py:Dialect.merge (arguments are not mutated)",
                    detail="; ".join(sorted(set(frame)))[:600], witness=_merge_witness() if frame else None))
    return obs


def _merge_witness():
    """replay on the real function over the finite kind lattice"""
    import copy

    from mashumaro.core.const import Sentinel
    from mashumaro.dialect import Dialect
    from mashumaro.types import SerializationStrategy

    class S(SerializationStrategy):
        def serialize(self, v):
            return v

        def deserialize(self, v):
            return v

    kinds = {"absent": None, "strategy": lambda: S(), "dict_s": lambda: {"serialize": str}, "dict_d": lambda: {"deserialize": str}}
    opts = [n for n, v in vars(Dialect).items() if not n.startswith("_") and n != "serialization_strategy" and not callable(v) and not isinstance(v, classmethod)]
    for ka, fa in kinds.items():
        for kb, fb in kinds.items():
            a, b = (fa() if fa else None), (fb() if fb else None)
            A = type("A", (Dialect,), {"serialization_strategy": ({int: a} if a is not None else {}), **{o: (1 if i % 2 else Sentinel.MISSING) for i, o in enumerate(opts)}})
            B = type("B", (Dialect,), {"serialization_strategy": ({int: b} if b is not None else {}), **{o: (2 if i % 3 == 0 else Sentinel.MISSING) for i, o in enumerate(opts)}})
            a_before, b_before = copy.deepcopy(A.serialization_strategy) if not isinstance(a, S) else None, copy.deepcopy(B.serialization_strategy) if not isinstance(b, S) else None
            M = A.merge(B)
            for o in opts:
                want = getattr(B, o) if getattr(B, o) is not Sentinel.MISSING else getattr(A, o)
                if getattr(M, o) != want:
                    return {"confirmed": True, "input": f"cls.{o}={getattr(A, o)!r}, other.{o}={getattr(B, o)!r}", "why": f"merged.{o} = {getattr(M, o)!r}, expected {want!r}"}
            if a_before is not None and A.serialization_strategy != a_before:
                return {"confirmed": True, "input": f"cls[int]={ka}, other[int]={kb}", "why": "merge mutated cls.serialization_strategy"}
            if b_before is not None and B.serialization_strategy != b_before:
                return {"confirmed": True, "input": f"cls[int]={ka}, other[int]={kb}", "why": "merge mutated other.serialization_strategy"}
            got = M.serialization_strategy.get(int)
            if b is None:
                want = a
            elif isinstance(b, S) or isinstance(a, S):
                want = b
            else:
                want = {**(a or {}), **b}
            if (got != want) if not isinstance(want, S) else (got is not want):
                return {"confirmed": True, "input": f"cls[int]={ka}, other[int]={kb}", "why": f"merged[int] = {got!r}, expected {want!r}"}
            if isinstance(got, dict) and (got is a or got is b) and not (b is not None and isinstance(a, S)):
                if got is a or (got is b and a is not None and not isinstance(a, S)):
                    return {"confirmed": True, "input": f"cls[int]={ka}, other[int]={kb}", "why": "merged[int] aliases an argument's mutable dict"}
    return None

"""S10: the builder's view of the fields (CodeBuilder.dataclass_fields / get_field_default / metadatas)
equals the view `dataclasses` itself arrives at.

The mixin compiles a class inside __init_subclass__, i.e. *before* the @dataclass decorator has processed
it, so the builder re-derives defaults and metadata from the MRO and the class namespace.  Contract:
for every init field f of the finished class K
      builder.get_field_default(f)          == the default / default_factory dataclasses assigned to K.f
      builder.metadatas.get(f, {})          == K.__dataclass_fields__[f].metadata
      (f in builder.dataclass_fields) => that Field's init flag == K's
Everything the generated code derives from a Field (alias, default comparisons of omit_default, the
explicit-null rule, serialize="omit", strategies) then rests on the same facts dataclasses uses.

Decided by enumeration over a lattice of hierarchies (exhaustive over it; bounded in depth 3 and in the
declaration forms listed) - there is no input quantifier: a point is one concrete class family.  The
builder objects are the real ones, harvested at compile time.
"""
from __future__ import annotations

import dataclasses
import itertools

from . import build, g4, harvest

# how a class of the chain treats field x
FORMS = {
    "-": None,  # does not mention x
    "req": "x: Optional[int]",
    "val3": "x: Optional[int] = 3",
    "val5": "x: Optional[int] = 5",
    "none": "x: Optional[int] = None",
    "fieldA": "x: Optional[int] = field(default=7, metadata={'alias': 'A'})",
    "fieldB": "x: Optional[int] = field(default=None, metadata={'alias': 'B', 'serialize': 'omit'})",
    "factory": "x: Optional[int] = field(default_factory=lambda: 9)",
    "ann_alias": "x: Annotated[Optional[int], Alias('ann')] = 4",
}


def family_source(forms, diamond=False, mixin_at="root"):
    """Root <- Mid <- Leaf (or Leaf(Mid, Side) with Side(Root) for the diamond); every class also has y: int = 0"""
    src = [g4.PRELUDE, "from mashumaro.types import Alias"]
    names = ["Root", "Mid", "Leaf"]
    bases = {"Root": "DataClassDictMixin", "Mid": "Root", "Leaf": "Mid"}
    if diamond:
        bases["Leaf"] = "Mid, Side"
    order = ["Root", "Mid"] + (["Side"] if diamond else []) + ["Leaf"]
    fm = dict(zip(names, forms[:3]))
    if diamond:
        bases["Side"] = "Root"
        fm["Side"] = forms[3]
    for n in order:
        src += ["@dataclass", f"class {n}({bases[n]}):"]
        body = []
        if fm[n] and FORMS[fm[n]]:
            body.append("    " + FORMS[fm[n]])
        if n == "Root":
            body.append("    y: int = 0")
        if not body:
            body.append("    pass")
        src += body
    return "\n".join(src) + "\n"


def valid(forms, diamond):
    # a required field after a defaulted one is rejected by dataclasses itself (Root has y: int = 0 last, x first)
    seen_default = False
    for f in forms:
        if f in ("-",):
            continue
        if f == "req" and seen_default:
            return False
        if f != "req":
            seen_default = True
    return any(f != "-" for f in forms)


def lattice(tier):
    keys = list(FORMS)
    pts = []
    for forms in itertools.product(keys, repeat=3):
        if valid(forms, False):
            pts.append((forms, False))
    if True:
        sel = keys if tier == "thorough" else ["-", "val3", "fieldA", "none"]
        for forms in itertools.product(sel, repeat=4):
            if valid(forms, True) and forms[1] != "-" and forms[3] != "-":
                pts.append((forms, True))
    if tier == "quick":
        # every pair of forms on (Root, Mid) with the leaf silent or re-declaring; a sample of the rest
        pts = [p for p in pts if p[1] or p[0][2] in ("-", "val5", "req", "fieldB") or p[0][0] == "-"]
    return pts


def fields_task(payload):
    pid, forms, diamond = payload
    label = f"[{'<'.join(forms)}{'/diamond' if diamond else ''}]"
    src = family_source(forms, diamond)
    try:
        mod, recs = build.build_module(src)
    except Exception as e:
        if isinstance(e, (TypeError, ValueError)) and ("non-default argument" in str(e) or "mutable default" in str(e)):
            return {"obligations": []}  # dataclasses itself rejects the family
        return {"obligations": [dict(id=f"{pid}.S10{label}/builds", status="refuted", unit="class creation", detail=f"{type(e).__name__}: {e}"[:300],
                                     witness={"confirmed": True, "source": src, "why": f"{type(e).__name__}: {e}"[:300]})]}
    try:
        obs = []
        for cname in ("Root", "Mid", "Side", "Leaf"):
            K = getattr(mod, cname, None)
            if K is None:
                continue
            bs = [r.builder for r in recs if r.builder is not None and r.builder.cls is K]
            if not bs:
                obs.append(dict(id=f"{pid}.S10{label}/{cname}", status="error", detail="no builder harvested"))
                continue
            probs = []
            for b in bs[:2]:  # the unpacker's and the packer's builder
                for F in dataclasses.fields(K):
                    want_default = F.default if F.default is not dataclasses.MISSING else F.default_factory
                    try:
                        got_default = b.get_field_default(F.name)
                    except Exception as e:  # noqa
                        probs.append(f"{F.name}: get_field_default raised {type(e).__name__}")
                        continue
                    same = (got_default is want_default) or (got_default == want_default and type(got_default) is type(want_default))
                    if not same:
                        probs.append(f"{F.name}: the builder sees default {got_default!r}, dataclasses gives {want_default!r}")
                    got_md = dict(b.metadatas.get(F.name, {}))
                    if got_md != dict(F.metadata):
                        probs.append(f"{F.name}: the builder sees metadata {got_md!r}, dataclasses gives {dict(F.metadata)!r}")
                    bf = b.dataclass_fields.get(F.name)
                    if bf is not None and bf.init != F.init:
                        probs.append(f"{F.name}: init flag {bf.init} vs {F.init}")
            probs = sorted(set(probs))
            w = None
            if probs:
                w = {"confirmed": True, "source": src, "input": f"class {cname}", "why": probs[0]}
            obs.append(dict(id=f"{pid}.S10{label}/{cname}", status="proved" if not probs else "refuted", unit=f"CodeBuilder({cname}).dataclass_fields / get_field_default / metadatas",
                            detail="; ".join(probs)[:500], witness=w))
        return {"obligations": obs}
    finally:
        build.drop_module(mod)


def obligations(pid, tier):
    from . import runner

    res = runner.run_pool(fields_task, [(pid, forms, d) for forms, d in lattice(tier)], chunks=8)
    obs, crashes = [], []
    for r in res:
        if "crash" in r:
            crashes.append(r["crash"] + " @ " + r["payload"] + "\n" + r["trace"][-500:])
        else:
            obs.extend(r["obligations"])
    return obs, crashes

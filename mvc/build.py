"""build schema points: exec class source in a fresh module with the exec recorder installed"""
import sys
import types

from . import harvest

_counter = [0]


def build_module(source, modname=None):
    """exec ``source`` as a new module registered in sys.modules (so that mashumaro's generated
    code can refer to it by module name); returns (module, records)"""
    rec = harvest.install()
    _counter[0] += 1
    modname = modname or f"vmod{_counter[0]}"
    mod = types.ModuleType(modname)
    mod.__dict__["__builtins__"] = __builtins__
    sys.modules[modname] = mod
    mark = rec.mark()
    exec(compile(source, f"<{modname}>", "exec"), mod.__dict__)
    return mod, rec.since(mark)


def drop_module(mod):
    sys.modules.pop(mod.__name__, None)


def find_units(records, cls, fname):
    """(record, FunctionDef) for functions named fname generated for cls"""
    import ast

    out = []
    for r in records:
        b = r.builder
        if b is None or b.cls is not cls:
            continue
        mod = ast.parse(r.text)
        for n in mod.body:
            if isinstance(n, ast.FunctionDef) and n.name == fname:
                out.append((r, n))
    return out

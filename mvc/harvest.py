"""Harvest the code mashumaro generates: rebind the module-global name ``exec`` of the emitting
modules (no edit of /repo) and record the exact text, globals and locals handed to it.

The recorded text *is* the text that runs: the recorder calls the real exec with the same
arguments after recording.
"""
import builtins
import importlib

EMITTING_MODULES = (
    "mashumaro.core.meta.code.builder",
    "mashumaro.core.meta.types.common",
    "mashumaro.core.meta.types.pack",
    "mashumaro.core.meta.types.unpack",
)


class Record:
    __slots__ = ("seq", "text", "globals", "locals", "module", "builder")

    def __init__(self, seq, text, g, l, module, builder):
        self.seq = seq
        self.text = text
        self.globals = g
        self.locals = l
        self.module = module
        self.builder = builder

    def params(self):
        b = self.builder
        if b is None:
            return {}
        return {
            "cls": b.cls,
            "dialect": b.dialect,
            "format_name": b.format_name,
            "default_dialect": b.default_dialect,
            "type_args": b.initial_type_args,
            "nailed": b.is_nailed,
            "attrs": b.attrs,
            "encoder": b.encoder,
            "decoder": b.decoder,
        }


class Recorder:
    def __init__(self):
        self.records = []
        self.installed = False

    def install(self):
        if self.installed:
            return self
        for name in EMITTING_MODULES:
            mod = importlib.import_module(name)
            mod.__dict__["exec"] = self._make(name)
        self.installed = True
        return self

    def uninstall(self):
        for name in EMITTING_MODULES:
            mod = importlib.import_module(name)
            mod.__dict__.pop("exec", None)
        self.installed = False

    def _make(self, modname):
        recorder = self

        def exec(code, g=None, l=None):  # noqa: A001 - deliberately shadows the builtin
            builder = None
            if isinstance(l, dict) and "cls" in l and "lines" in l and "globals" in l:
                # CodeBuilder.compile passes self.__dict__ as locals
                import gc

                for ref in gc.get_referrers(l):
                    if getattr(ref, "__dict__", None) is l:
                        builder = ref
                        break
            recorder.records.append(
                Record(len(recorder.records), code, g, l, modname, builder)
            )
            return builtins.exec(code, g, l)

        return exec

    def mark(self):
        return len(self.records)

    def since(self, mark):
        return self.records[mark:]


RECORDER = Recorder()


def install():
    return RECORDER.install()

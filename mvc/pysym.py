"""pysym - forward symbolic executor / VC generator for the Python subset mashumaro generates
(L-gen) and for small repository functions (L-src).  See DESIGN.md section 2.

Statements fork (one path per branch / may-raise point); expressions are evaluated merged
(Ite nodes, list of guarded raise conditions).  Values are trees (SymVal) over z3 terms of one
uninterpreted sort V; comparison against a specification is structural with extensional,
quantified goals for comprehensions.  Every obligation is discharged by z3 (unsat of negation).
"""
from __future__ import annotations

import ast
import os
import builtins
import inspect
import itertools
import time
import types as pytypes

import z3


class NotInSubset(Exception):
    def __init__(self, what, node=None):
        self.what = what
        self.node = node
        line = getattr(node, "lineno", "?")
        super().__init__(f"{what} (line {line})")


# ---------------------------------------------------------------------------------------------
# symbolic values
# ---------------------------------------------------------------------------------------------
class SymVal:
    pass


class Tm(SymVal):
    """z3 term of sort V"""

    __slots__ = ("t",)

    def __init__(self, t):
        self.t = t

    def __repr__(self):
        return f"Tm({self.t})"


class Bl(SymVal):
    """python bool given by a z3 Bool"""

    __slots__ = ("b",)

    def __init__(self, b):
        self.b = b

    def __repr__(self):
        return f"Bl({self.b})"


class Ob(SymVal):
    """a concrete python object taken from a recorded namespace / a literal"""

    __slots__ = ("o",)

    def __init__(self, o):
        self.o = o

    def __repr__(self):
        return f"Ob({_short(self.o)})"


class LD(SymVal):
    """dict built locally with constant keys: ordered (key object, SymVal)"""

    __slots__ = ("items", "fresh")

    def __init__(self, items=(), fresh=True):
        self.items = list(items)
        self.fresh = fresh

    def set(self, k, v):
        items = list(self.items)
        for i, (kk, _) in enumerate(items):
            if _const_eq(kk, k):
                items[i] = (kk, v)
                return LD(items)
        items.append((k, v))
        return LD(items)

    def get(self, k):
        for kk, v in self.items:
            if _const_eq(kk, k):
                return v
        return None

    def keys(self):
        return [k for k, _ in self.items]

    def __repr__(self):
        return "LD{" + ", ".join(f"{k!r}: {v!r}" for k, v in self.items) + "}"


class LL(SymVal):
    """list / tuple / set display of known length"""

    __slots__ = ("kind", "items")

    def __init__(self, kind, items):
        self.kind = kind
        self.items = list(items)

    def __repr__(self):
        return f"LL[{self.kind}]({self.items})"


class Call(SymVal):
    """result of an opaque (uninterpreted, pure) call that did not raise"""

    __slots__ = ("key", "name", "args", "kw")

    def __init__(self, key, name, args, kw=()):
        self.key = key  # hashable identity of the callee
        self.name = name
        self.args = list(args)
        self.kw = list(kw)  # [(name, SymVal)]

    def __repr__(self):
        a = ", ".join([repr(x) for x in self.args] + [f"{k}={v!r}" for k, v in self.kw])
        return f"{self.name}({a})"


class Ite(SymVal):
    __slots__ = ("c", "a", "b")

    def __init__(self, c, a, b):
        self.c = c
        self.a = a
        self.b = b

    def __repr__(self):
        return f"Ite({self.c}, {self.a!r}, {self.b!r})"


class Comp(SymVal):
    """comprehension result: kind in list/set/dict/gen; src = iterated SymVal; bound = list of z3
    V constants bound to the target names; body = SymVal (list/set) or (key, value) (dict)"""

    __slots__ = ("kind", "src", "bound", "body", "pattern", "outer")

    def __init__(self, kind, src, bound, body, pattern, outer=()):
        self.outer = tuple(outer)  # bound variables of enclosing comprehensions
        self.kind = kind
        self.src = src
        self.bound = bound
        self.body = body
        self.pattern = pattern  # 'name' | ('tuple', n)

    def __repr__(self):
        return f"Comp[{self.kind}]({self.body!r} for {self.bound} in {self.src!r})"


class SD(SymVal):
    """a dict known only through a symbolic base mapping (haskey/dval on ``base``) plus the stores
    made on this path: updates = [(key SymVal, value SymVal)], latest last. Keys are compared by
    term equality (sound for the str / class keys used by the generator's registries)."""

    __slots__ = ("base", "updates", "ident")

    def __init__(self, base, updates=(), ident=None):
        self.base = base  # z3 term
        self.updates = list(updates)
        self.ident = ident

    def store(self, k, v):
        return SD(self.base, self.updates + [(k, v)], self.ident)

    def __repr__(self):
        return f"SD({self.base} + {self.updates})"


class KeySet(SymVal):
    """set(d.keys()) minus a set of constants"""

    __slots__ = ("d", "minus")

    def __init__(self, d, minus=()):
        self.d = d
        self.minus = list(minus)

    def __repr__(self):
        return f"KeySet({self.d!r} - {self.minus})"


def _short(o):
    try:
        if isinstance(o, type):
            return f"{o.__module__}.{o.__qualname__}"
        if isinstance(o, (str, int, float, bool, type(None), bytes)):
            return repr(o)
        if isinstance(o, pytypes.ModuleType):
            return f"<module {o.__name__}>"
        if isinstance(o, (pytypes.MethodType,)):
            return f"{_short(o.__self__)}.{o.__func__.__name__}"
        if hasattr(o, "__qualname__"):
            return f"{getattr(o, '__module__', '?')}.{o.__qualname__}"
        return f"<{type(o).__name__} at {id(o):#x}>"
    except Exception:
        return f"<{type(o).__name__}>"


_VALUE_CONST_TYPES = (str, int, bool, float, bytes, type(None))


def _const_key(o):
    if type(o) in _VALUE_CONST_TYPES:
        return ("v", type(o).__name__, o if o == o else "nan")
    if isinstance(o, pytypes.MethodType):
        return ("m", id(o.__func__), id(o.__self__))
    if isinstance(o, pytypes.BuiltinMethodType) and getattr(o, "__self__", None) is not None and not isinstance(o.__self__, pytypes.ModuleType):
        return ("bm", id(o.__self__), o.__name__)
    if isinstance(o, (pytypes.MethodDescriptorType, pytypes.WrapperDescriptorType, pytypes.ClassMethodDescriptorType)):
        return ("md", id(o.__objclass__), o.__name__)
    if type(o).__module__ in ("typing", "types", "typing_extensions") and not isinstance(o, (type, pytypes.ModuleType, pytypes.FunctionType)):
        # type hints (typing aliases, types.GenericAlias / UnionType) are values: `typing.Optional[int]` evaluated
        # twice may or may not be the same object (typing caches them in a bounded LRU), so key them by equality
        try:
            rep = _HINT_CANON.setdefault(o, o)
            return ("i", id(rep))
        except TypeError:
            pass
    return ("i", id(o))


_HINT_CANON = {}


def _const_eq(a, b):
    return _const_key(a) == _const_key(b)


# ---------------------------------------------------------------------------------------------
# engine: z3 vocabulary
# ---------------------------------------------------------------------------------------------
class Engine:
    def __init__(self):
        self.V = z3.DeclareSort("V")
        V = self.V
        B = z3.BoolSort()
        self.consts = {}  # const key -> z3 const
        self.const_obj = {}  # const key -> python object
        self._keep = []  # keep python objects alive (ids must stay unique)
        self.funcs = {}
        self.n = 0
        self.axioms = []  # global facts
        self.typeof = z3.Function("typeof", V, V)
        self.truthy = z3.Function("truthy", V, B)
        self.haskey = z3.Function("haskey", V, V, B)
        self.dval = z3.Function("dval", V, V, V)
        self.issub = z3.Function("issub", V, V, B)
        self.hasattr_ = z3.Function("hasattr", V, V, B)  # (type, attribute name)
        self.pyeq = z3.Function("pyeq", V, V, B)
        self.elem = z3.Function("elem", V, V, B)  # membership in an iterated source
        self.iterable = z3.Function("iterable", V, B)
        self.attr_names = set()
        self.opaque_cache = {}
        self.bound_stack = []
        self.items_of = {}  # id of a named comprehension source -> the mapping whose .items() it is
        self.class_consts = {}  # const key -> class object seen
        self.trusted = set()
        for o in (None, True, False):
            self.const(o)

    # ----- constants
    def const(self, o):
        k = _const_key(o)
        c = self.consts.get(k)
        if c is None:
            name = f"c{len(self.consts)}!{_short(o)}"
            c = z3.Const(name, self.V)
            self.consts[k] = c
            self.const_obj[k] = o
            self._keep.append(o)
            if isinstance(o, type):
                self.class_consts[k] = o
            else:
                # the concrete class of a concrete object is known
                try:
                    self.axioms.append(self.typeof(c) == self.const(type(o)))
                except Exception:
                    pass
                if type(o) in _VALUE_CONST_TYPES or o is None:
                    try:
                        self.axioms.append(self.truthy(c) == bool(o))
                    except Exception:
                        pass
        return c

    def fresh(self, name, sort=None):
        self.n += 1
        return z3.Const(f"{name}!{self.n}", sort or self.V)

    def func(self, name, *sorts):
        f = self.funcs.get(name)
        if f is None:
            f = z3.Function(name, *sorts)
            self.funcs[name] = f
        return f

    def ground_axioms(self):
        """facts that depend on the set of constants created so far"""
        ax = list(self.axioms)
        # only None compares equal to None (trusted: user __eq__ methods respect this)
        x = z3.Const("x!eqnone", self.V)
        none = self.const(None)
        ax.append(z3.ForAll([x], self.pyeq(x, none) == (x == none), patterns=[self.pyeq(x, none)]))
        ax.append(z3.ForAll([x], self.pyeq(none, x) == (x == none), patterns=[self.pyeq(none, x)]))
        # None is the only instance of NoneType
        ax.append(z3.ForAll([x], (self.typeof(x) == self.const(type(None))) == (x == none), patterns=[self.typeof(x)]))
        if getattr(self, "uses_unitems", False):
            m = z3.Const("m!unitems", self.V)
            items = self._callfn(Call(("meth", "items"), "items", [Tm(m)]))
            ax.append(z3.ForAll([m], self.func("unitems", self.V, self.V)(items(m)) == m, patterns=[items(m)]))
        cs = list(self.consts.values())
        if len(cs) > 1:
            ax.append(z3.Distinct(*cs))
        classes = list(self.class_consts.items())
        for (ka, a) in classes:
            ca = self.consts[ka]
            for (kb, b) in classes:
                cb = self.consts[kb]
                try:
                    ax.append(self.issub(ca, cb) == bool(issubclass(a, b)))
                except TypeError:
                    pass
            for n in self.attr_names:
                try:
                    ax.append(self.hasattr_(ca, self.const(n)) == bool(hasattr(a, n) or any(n in vars(k) for k in a.__mro__)))
                except Exception:
                    pass
        return ax

    # ----- conversions
    def term(self, v):
        """SymVal -> z3 term of sort V"""
        if isinstance(v, Tm):
            return v.t
        if isinstance(v, Ob):
            return self.const(v.o)
        if isinstance(v, Bl):
            return z3.If(v.b, self.const(True), self.const(False))
        if isinstance(v, Ite):
            return z3.If(v.c, self.term(v.a), self.term(v.b))
        if isinstance(v, Call):
            f = self._callfn(v)
            args = [self.term(a) for a in v.args] + [self.term(a) for _, a in v.kw]
            return f(*args) if args else f()
        if isinstance(v, LL):
            f = self.func(f"mk{v.kind}!{len(v.items)}", *([self.V] * len(v.items)), self.V)
            return f(*[self.term(a) for a in v.items]) if v.items else f()
        if isinstance(v, LD):
            kn = "!".join(str(_const_key(k)[-1]) for k, _ in v.items)
            f = self.func(f"mkdict!{len(v.items)}!{kn}", *([self.V] * len(v.items)), self.V)
            return f(*[self.term(a) for _, a in v.items]) if v.items else f()
        if isinstance(v, (Comp, KeySet)):
            # opaque object, hash-consed on the canonical structure (alpha-renamed bound variables):
            # syntactically equal comprehensions denote the same term (sound: they are equal values
            # up to identity, and identity of fresh containers is never compared through terms)
            outer = list(getattr(v, "outer", ()))
            sub0 = [(bv, z3.Const(f"obv!{i}", self.V)) for i, bv in enumerate(outer)]
            key = (len(outer), self.canon(v, sub0))
            f = self.opaque_cache.get(key)
            if f is None:
                self.n += 1
                f = z3.Function(f"opaque_{type(v).__name__}!{self.n}", *([self.V] * len(outer)), self.V)
                self.opaque_cache[key] = f
            return f(*outer) if outer else f()
        raise NotInSubset(f"term of {type(v).__name__}")

    def canon(self, v, sub):
        """canonical string of a SymVal tree; sub = [(bound const, canonical const)]"""
        if isinstance(v, Tm):
            t = z3.substitute(v.t, *sub) if sub else v.t
            return "T:" + z3.simplify(t).sexpr()
        if isinstance(v, Bl):
            t = z3.substitute(v.b, *sub) if sub else v.b
            return "B:" + z3.simplify(t).sexpr()
        if isinstance(v, Ob):
            return "O:" + repr(_const_key(v.o))
        if isinstance(v, Ite):
            c = z3.substitute(v.c, *sub) if sub else v.c
            return f"I({z3.simplify(c).sexpr()},{self.canon(v.a, sub)},{self.canon(v.b, sub)})"
        if isinstance(v, Call):
            return f"C[{v.name}!{_keystr(v.key)}](" + ",".join([self.canon(a, sub) for a in v.args] + [f"{k}={self.canon(a, sub)}" for k, a in v.kw]) + ")"
        if isinstance(v, LL):
            return f"L[{v.kind}](" + ",".join(self.canon(a, sub) for a in v.items) + ")"
        if isinstance(v, LD):
            return "D{" + ",".join(f"{_const_key(k)!r}:{self.canon(a, sub)}" for k, a in v.items) + "}"
        if isinstance(v, Comp):
            depth = len(sub)
            new = [z3.Const(f"bv!{depth + i}", self.V) for i in range(len(v.bound))]
            sub2 = sub + list(zip(v.bound, new))
            body = (self.canon(v.body[0], sub2) + "=>" + self.canon(v.body[1], sub2)) if v.kind == "dict" else self.canon(v.body, sub2)
            return f"K[{v.kind},{v.pattern}]({body} for {self.canon(v.src, sub)})"
        if isinstance(v, KeySet):
            return f"KS({self.canon(v.d, sub)}-{sorted(repr(_const_key(c)) for c in v.minus)})"
        raise NotInSubset(f"canon of {type(v).__name__}")

    def _callfn(self, v):
        n = len(v.args) + len(v.kw)
        kwn = ",".join(k for k, _ in v.kw)
        return self.func(f"call!{v.name}!{_keystr(v.key)}!{len(v.args)}!{kwn}", *([self.V] * n), self.V)

    def raises_pred(self, key, name, args, kw):
        n = len(args) + len(kw)
        kwn = ",".join(k for k, _ in kw)
        f = self.func(f"raises!{name}!{_keystr(key)}!{len(args)}!{kwn}", *([self.V] * n), z3.BoolSort())
        a = [self.term(x) for x in args] + [self.term(x) for _, x in kw]
        return f(*a) if a else f()

    def exc_term(self, key, name, args, kw):
        n = len(args) + len(kw)
        kwn = ",".join(k for k, _ in kw)
        f = self.func(f"exc!{name}!{_keystr(key)}!{len(args)}!{kwn}", *([self.V] * n), self.V)
        a = [self.term(x) for x in args] + [self.term(x) for _, x in kw]
        return f(*a) if a else f()

    def truth(self, v):
        """SymVal -> z3 Bool (python truthiness)"""
        if isinstance(v, Bl):
            return v.b
        if isinstance(v, Ob):
            try:
                return z3.BoolVal(bool(v.o))
            except Exception:
                return self.truthy(self.term(v))
        if isinstance(v, LD):
            return z3.BoolVal(len(v.items) > 0)
        if isinstance(v, LL):
            return z3.BoolVal(len(v.items) > 0)
        if isinstance(v, Ite):
            return z3.If(v.c, self.truth(v.a), self.truth(v.b))
        if isinstance(v, KeySet):
            k = self.fresh("k")
            d = self.term(v.d)
            return z3.Exists([k], z3.And(self.haskey(d, k), *[k != self.const(c) for c in v.minus]))
        if isinstance(v, Comp):
            raise NotInSubset("truthiness of a comprehension")
        return self.truthy(self.term(v))

    # ----- identity / equality
    def is_(self, a, b):
        """python `a is b` -> z3 Bool"""
        fa, fb = _is_fresh(a), _is_fresh(b)
        if fa or fb:
            if fa and fb:
                raise NotInSubset("identity of two fresh objects")
            return z3.BoolVal(False)
        if isinstance(a, Ob) and isinstance(b, Ob):
            return z3.BoolVal(_const_eq(a.o, b.o))
        if isinstance(a, Ite):
            return z3.If(a.c, self.is_(a.a, b), self.is_(a.b, b))
        if isinstance(b, Ite):
            return z3.If(b.c, self.is_(a, b.a), self.is_(a, b.b))
        return self.term(a) == self.term(b)

    def norm(self, v, lenient=False):
        """a comprehension with identity body and x.copy() both denote a fresh shallow copy;
        lenient (code side only): an element that is a fresh copy of the bound element counts as
        the element (copying more than the specification demands is value-equal)"""
        if isinstance(v, Comp):
            if v.kind == "list" and v.pattern == "name" and self._is_identity(v.body, v.bound[0], lenient):
                return Call(("freshcopy",), "freshcopy", [v.src])
            if (v.kind == "dict" and v.pattern == ("tuple", 2) and self._is_identity(v.body[0], v.bound[0], lenient)
                    and self._is_identity(v.body[1], v.bound[1], lenient)):
                return Call(("freshcopy",), "freshcopy", [Tm(self.unitems(self.term(v.src)))])
        if isinstance(v, Call) and v.key == ("meth", "copy") and len(v.args) == 1 and not v.kw:
            return Call(("freshcopy",), "freshcopy", [v.args[0]])
        return v

    def _is_identity(self, body, b, lenient=False):
        """does the (pure, scalar) body denote the bound variable itself?  e.g.
        `value if value is not None else None`"""
        if isinstance(body, Tm):
            return z3.eq(body.t, b)
        if lenient:
            nb = self.norm(body, True) if isinstance(body, (Comp, Call)) else body
            if isinstance(nb, Call) and nb.key == ("freshcopy",) and len(nb.args) == 1:
                return self._is_identity(nb.args[0], b, True)
            if isinstance(nb, Ite) and isinstance(nb.b, Ob) and nb.b.o is None:
                # `copy(v) if v is not None else None`
                c = z3.simplify(nb.c)
                inner = nb.a
                ni = self.norm(inner, True) if isinstance(inner, (Comp, Call)) else inner
                if isinstance(ni, Call) and ni.key == ("freshcopy",) and self._is_identity(ni.args[0], b, True):
                    s = z3.Solver()
                    s.set("timeout", 2000)
                    s.add(c != (b != self.const(None)))
                    if s.check() == z3.unsat:
                        return True
        if isinstance(body, Ite) and not _has_fresh(body):
            def scalar(x):
                return isinstance(x, (Tm, Ob)) or (isinstance(x, Ite) and scalar(x.a) and scalar(x.b))
            if not scalar(body):
                return False
            s = z3.Solver()
            s.set("timeout", 2000)
            s.add(self.term(body) != b)
            return s.check() == z3.unsat
        return False

    def unitems(self, t):
        """the mapping m such that t = m.items()"""
        self.uses_unitems = True
        if z3.is_app(t) and t.decl().name().startswith("call!items!") and t.num_args() == 1:
            return t.arg(0)  # unitems(m.items()) = m, applied syntactically (the axiom itself stays available)
        return self.func("unitems", self.V, self.V)(t)

    def _items_arg(self, src):
        t = self.term(src)
        if t.get_id() in self.items_of:
            return self.items_of[t.get_id()]
        if z3.is_app(t) and t.decl().name().startswith("call!items!") and t.num_args() == 1:
            return t.arg(0)
        return t

    def eq_struct(self, a, b):
        """sufficient condition for 'a and b denote equal values built from the same classes'
        (structural congruence; extensional for comprehensions)"""
        b = self.norm(b)
        # the specification returns the input itself, or a fresh shallow copy of it (elements shared): the
        # code may copy the elements as well (lenient normalisation of the code side only)
        shares = (isinstance(b, (Tm, Ite)) and not _has_fresh(b)) or (
            isinstance(b, Call) and b.key == ("freshcopy",) and len(b.args) == 1 and isinstance(b.args[0], (Tm, Ite)) and not _has_fresh(b.args[0]))
        a = self.norm(a, shares)
        # asymmetric (a = code, b = specification): where the specification allows the input
        # container itself to be returned (no_copy_collections), returning a fresh shallow copy of
        # it is equal as a value and shares less; the converse (aliasing where the specification
        # demands a copy) is not accepted
        if isinstance(a, Call) and a.key == ("freshcopy",) and isinstance(b, (Tm, Ite)) and not _has_fresh(b):
            return self.eq_struct(a.args[0], b)
        if isinstance(a, Ite):
            return z3.And(z3.Implies(a.c, self.eq_struct(a.a, b)), z3.Implies(z3.Not(a.c), self.eq_struct(a.b, b)))
        if isinstance(b, Ite):
            return z3.And(z3.Implies(b.c, self.eq_struct(a, b.a)), z3.Implies(z3.Not(b.c), self.eq_struct(a, b.b)))
        if isinstance(a, Ob) and isinstance(b, Ob):
            if _const_eq(a.o, b.o):
                return z3.BoolVal(True)
            # type hints (typing / types.GenericAlias objects) are values: compare with ==
            if type(a.o) is type(b.o) and type(a.o).__module__ in ("typing", "types", "typing_extensions"):
                try:
                    return z3.BoolVal(bool(a.o == b.o))
                except Exception:
                    pass
            return z3.BoolVal(False)
        if isinstance(a, Bl) and isinstance(b, Bl):
            return a.b == b.b
        if isinstance(a, LD) and isinstance(b, LD):
            if len(a.items) != len(b.items):
                return z3.BoolVal(False)
            cs = []
            for (ka, va), (kb, vb) in zip(a.items, b.items):
                if not _const_eq(ka, kb):
                    return z3.BoolVal(False)
                cs.append(self.eq_struct(va, vb))
            return z3.And(*cs) if cs else z3.BoolVal(True)
        if isinstance(a, LL) and isinstance(b, LL):
            if a.kind != b.kind or len(a.items) != len(b.items):
                return z3.BoolVal(False)
            cs = [self.eq_struct(x, y) for x, y in zip(a.items, b.items)]
            return z3.And(*cs) if cs else z3.BoolVal(True)
        if isinstance(a, Call) and isinstance(b, Call):
            if a.key == b.key and len(a.args) == len(b.args) and [k for k, _ in a.kw] == [k for k, _ in b.kw]:
                cs = [self.eq_struct(x, y) for x, y in zip(a.args, b.args)]
                cs += [self.eq_struct(x, y) for (_, x), (_, y) in zip(a.kw, b.kw)]
                return z3.And(*cs) if cs else z3.BoolVal(True)
            if _has_fresh(a) or _has_fresh(b):
                return z3.BoolVal(False)
            return self.term(a) == self.term(b)
        if isinstance(a, Comp) and isinstance(b, Comp):
            if a.kind != b.kind or a.pattern != b.pattern or len(a.bound) != len(b.bound):
                return z3.BoolVal(False)
            src = self.eq_struct(a.src, b.src)
            # rename b's bound variables to a's
            sub = list(zip(b.bound, a.bound))
            mem = self.member(a.src, a.bound, a.pattern)
            if a.kind == "dict":
                body = z3.And(
                    self.eq_struct(a.body[0], subst(b.body[0], sub)),
                    self.eq_struct(a.body[1], subst(b.body[1], sub)),
                )
            else:
                body = self.eq_struct(a.body, subst(b.body, sub))
            return z3.And(src, z3.ForAll(list(a.bound), z3.Implies(mem, body), patterns=[_pat(mem)]))
        if isinstance(a, KeySet) and isinstance(b, KeySet):
            sa = {_const_key(c) for c in a.minus}
            sb = {_const_key(c) for c in b.minus}
            if sa != sb:
                return z3.BoolVal(False)
            return self.eq_struct(a.d, b.d)
        fa, fb = _has_fresh(a), _has_fresh(b)
        if fa or fb:
            return z3.BoolVal(False)
        return self.term(a) == self.term(b)

    def member(self, src, bound, pattern):
        s = self.term(src) if not isinstance(src, (Comp,)) else self.fresh("src")
        if pattern == "name":
            return self.elem(s, bound[0])
        f = self.func(f"mktuple!{len(bound)}", *([self.V] * len(bound)), self.V)
        return self.elem(s, f(*bound))


def _pat(mem):
    return mem


def _has_ite(t, _seen=None):
    seen = _seen if _seen is not None else set()
    if t.get_id() in seen:
        return False
    seen.add(t.get_id())
    if z3.is_app(t):
        if t.decl().kind() == z3.Z3_OP_ITE:
            return True
        return any(_has_ite(c, seen) for c in t.children())
    return True


def _keystr(key):
    if isinstance(key, tuple):
        return "_".join(str(k) for k in key)
    return str(key)


def _is_fresh(v):
    return (isinstance(v, (LD, LL, Comp, KeySet)) and getattr(v, "fresh", True)) or getattr(v, "is_local_object", False)


def _has_fresh(v):
    if isinstance(v, (LD, LL, Comp, KeySet)):
        return True
    if isinstance(v, Call):
        return any(_has_fresh(x) for x in v.args) or any(_has_fresh(x) for _, x in v.kw)
    if isinstance(v, Ite):
        return _has_fresh(v.a) or _has_fresh(v.b)
    return False


def subst(v, sub):
    """substitute z3 constants in a SymVal tree; sub = [(old, new)]"""
    if not sub:
        return v
    if isinstance(v, Tm):
        return Tm(z3.substitute(v.t, *sub))
    if isinstance(v, Bl):
        return Bl(z3.substitute(v.b, *sub))
    if isinstance(v, Ob):
        return v
    if isinstance(v, Ite):
        return Ite(z3.substitute(v.c, *sub), subst(v.a, sub), subst(v.b, sub))
    if isinstance(v, Call):
        return Call(v.key, v.name, [subst(a, sub) for a in v.args], [(k, subst(a, sub)) for k, a in v.kw])
    if isinstance(v, LL):
        return LL(v.kind, [subst(a, sub) for a in v.items])
    if isinstance(v, LD):
        return LD([(k, subst(a, sub)) for k, a in v.items])
    if isinstance(v, Comp):
        body = tuple(subst(x, sub) for x in v.body) if v.kind == "dict" else subst(v.body, sub)
        m = {o.get_id(): n for o, n in sub}
        outer = tuple(m.get(o.get_id(), o) for o in v.outer)
        return Comp(v.kind, subst(v.src, sub), v.bound, body, v.pattern, outer=outer)
    if isinstance(v, KeySet):
        return KeySet(subst(v.d, sub), v.minus)
    raise NotInSubset(f"subst of {type(v).__name__}")


# ---------------------------------------------------------------------------------------------
# outcomes and states
# ---------------------------------------------------------------------------------------------
class Exc:
    """exception value: cls is an Ob (known class) or None (opaque, `term` is the object)"""

    def __init__(self, cls=None, args=(), kw=(), term=None, from_none=False, origin=""):
        self.cls = cls
        self.args = list(args)
        self.kw = list(kw)
        self.term = term
        self.from_none = from_none
        self.origin = origin

    def __repr__(self):
        if self.cls is not None:
            return f"Exc({_short(self.cls.o)}{self.args!r}{' from None' if self.from_none else ''})"
        return f"Exc(opaque {self.term} @{self.origin})"


class Path:
    def __init__(self, pc, kind, value, env=None, ghosts=None, branch=None):
        self.branch = branch if branch is not None else list(pc)  # branch conditions only
        self.pc = pc  # list of z3 Bool (branch conditions + definitional hypotheses)
        self.kind = kind  # 'return' | 'raise'
        self.value = value  # SymVal | Exc
        self.env = env
        self.ghosts = ghosts or []

    def __repr__(self):
        return f"Path({self.kind} {self.value!r} if {self.pc})"


class State:
    def __init__(self, env, pc=None, cur_exc=None, ghosts=None, hyps=None):
        self.env = env
        self.pc = pc or []  # branch conditions
        self.hyps = hyps or []  # definitional hypotheses (facts about fresh symbols, A3)
        self.cur_exc = cur_exc
        self.ghosts = ghosts or []  # ordered log of ghost events (call events)

    def clone(self):
        return State(dict(self.env), list(self.pc), self.cur_exc, list(self.ghosts), list(self.hyps))


_MAXPATHS = 40000

# methods on symbolic receivers that have a built-in model
_BUILTIN_METHODS = {"get", "keys", "items", "values", "copy"}


class Executor:
    """executes one function AST"""

    def __init__(self, eng: Engine, namespace: dict, hooks=None):
        self.eng = eng
        self.ns = namespace
        self.npaths = 0
        self.hooks = hooks or {}
        # names of callees whose calls are logged as ghost events: key -> label
        self.ghost_calls = {}
        self.unresolved = []  # (name, lineno) loaded names that resolve nowhere (C17)
        self.attr_fail = []  # (expr text, lineno) attribute walks on concrete objects that fail
        self.nonraising = set()  # callee keys assumed not to raise
        self.nonraising_prefixes = ()
        self.assume_hasattr = False  # precondition: receivers conform to their annotations
        self.inline = {}  # function name -> (FunctionDef, namespace, binds_first: 'cls'|'self'|None)
        self.inline_depth = 0
        self.trace_calls = []

    # ---------------- entry
    def run(self, fn: ast.FunctionDef, args: dict, pc=None):
        """args: parameter name -> SymVal; returns list[Path]"""
        env = {}
        a = fn.args
        params = [x.arg for x in a.posonlyargs + a.args]
        defaults = a.defaults
        for name, dflt in zip(params[len(params) - len(defaults):], defaults):
            env[name] = ("default", dflt)
        for x, dflt in zip(a.kwonlyargs, a.kw_defaults):
            if dflt is not None:
                env[x.arg] = ("default", dflt)
        st0 = State({}, list(pc or []))
        for k, v in list(env.items()):
            if k in args:
                env[k] = args[k]
            else:
                ev = self.eval_pure(v[1], st0)
                env[k] = ev
        for k, v in args.items():
            env[k] = v
        allp = params + [x.arg for x in a.kwonlyargs]
        for p in allp:
            if p not in env:
                raise NotInSubset(f"no value for parameter {p}")
        st0.env = env
        out = []
        for st, sig in self.exec_block(fn.body, st0):
            if sig is None:
                out.append(Path(st.pc + st.hyps, "return", Ob(None), st.env, st.ghosts, st.pc))
            elif sig[0] == "return":
                out.append(Path(st.pc + st.hyps, "return", sig[1], st.env, st.ghosts, st.pc))
            elif sig[0] == "raise":
                out.append(Path(st.pc + st.hyps, "raise", sig[1], st.env, st.ghosts, st.pc))
            else:
                raise NotInSubset(f"signal {sig[0]} escapes function")
        return out

    def eval_pure(self, node, st):
        ctx = EvalCtx()
        v = self.eval(node, st, ctx)
        if ctx.raises:
            raise NotInSubset("default value expression may raise", node)
        return v

    # ---------------- statements
    def exec_block(self, stmts, st):
        """-> list of (State, signal) ; signal None = fell through"""
        states = [(st, None)]
        for s in stmts:
            nxt = []
            for (cur, sig) in states:
                if sig is not None:
                    nxt.append((cur, sig))
                    continue
                nxt.extend(self.exec_stmt(s, cur))
            states = nxt
            self.npaths = max(self.npaths, len(states))
            if len(states) > _MAXPATHS:
                raise NotInSubset("path explosion", s)
        return states

    def _fork_eval(self, node, st):
        """evaluate an expression; fork into the non-raising continuation and one path per raise
        entry. returns (list[(State, SymVal)], list[(State, Exc)])"""
        ctx = EvalCtx()
        v = self.eval(node, st, ctx)
        return self._fork_ctx(st, ctx, v)

    def _fork_ctx(self, st, ctx, v):
        oks, bad = [], []
        prev = []
        for (cond, exc) in ctx.raises:
            s2 = st.clone()
            s2.pc = s2.pc + [z3.Not(p) for p in prev] + [cond]
            s2.hyps = s2.hyps + ctx.hyps
            s2.ghosts = s2.ghosts + [g for g in ctx.ghosts_before(cond)]
            bad.append((s2, exc))
            prev.append(cond)
        if not any(z3.is_true(p) for p in prev):  # otherwise the expression always raises
            s1 = st.clone()
            s1.pc = s1.pc + [z3.Not(p) for p in prev]
            s1.hyps = s1.hyps + ctx.hyps
            s1.ghosts = s1.ghosts + ctx.ghosts
            oks.append((s1, v))
        return oks, bad

    def exec_stmt(self, s, st):
        m = getattr(self, "st_" + type(s).__name__, None)
        if m is None:
            raise NotInSubset(f"statement {type(s).__name__}", s)
        return m(s, st)

    def st_Pass(self, s, st):
        return [(st, None)]

    def st_Expr(self, s, st):
        if isinstance(s.value, ast.Constant):
            return [(st, None)]
        v = s.value
        if (isinstance(v, ast.Call) and isinstance(v.func, ast.Attribute) and v.func.attr == "append"
                and isinstance(v.func.value, ast.Name) and isinstance(st.env.get(v.func.value.id), LL)
                and len(v.args) == 1 and not v.keywords):
            oks, bad = self._fork_eval(v.args[0], st)
            out = [(b, ("raise", e)) for b, e in bad]
            for a, x in oks:
                cur = a.env[v.func.value.id]
                a.env[v.func.value.id] = LL(cur.kind, cur.items + [x])
                out.append((a, None))
            return out
        oks, bad = self._fork_eval(s.value, st)
        return [(a, None) for a, _ in oks] + [(b, ("raise", e)) for b, e in bad]

    def st_Return(self, s, st):
        if s.value is None:
            return [(st, ("return", Ob(None)))]
        oks, bad = self._fork_eval(s.value, st)
        return [(a, ("return", v)) for a, v in oks] + [(b, ("raise", e)) for b, e in bad]

    def st_Assign(self, s, st):
        if (len(s.targets) == 1 and isinstance(s.targets[0], ast.Subscript) and isinstance(s.targets[0].value, ast.Name)
                and isinstance(st.env.get(s.targets[0].value.id), SD)):
            # registry store: the key expression may raise (e.g. variant.__dict__['field'])
            tgt = s.targets[0]
            koks, kbad = self._fork_eval(tgt.slice, st)
            out = [(b, ("raise", e)) for b, e in kbad]
            for a, kv in koks:
                voks, vbad = self._fork_eval(s.value, a)
                out += [(b, ("raise", e)) for b, e in vbad]
                for a2, vv in voks:
                    a2.env[tgt.value.id] = a2.env[tgt.value.id].store(kv, vv)
                    out.append((a2, None))
            return out
        oks, bad = self._fork_eval(s.value, st)
        out = [(b, ("raise", e)) for b, e in bad]
        for a0, v0 in oks:
            # split a conditional value into one state per alternative: values stay ite-free
            for a, v in self._split_ite(a0, v0):
                for tgt in s.targets:
                    out_states = self.assign(tgt, v, a)
                    if len(out_states) != 1:
                        raise NotInSubset("forking assignment target", s)
                    a = out_states[0]
                out.append((a, None))
        return out

    def _split_ite(self, st, v, depth=0):
        if isinstance(v, Ite) and depth < 4:
            t = st.clone()
            t.pc.append(v.c)
            f = st.clone()
            f.pc.append(z3.Not(v.c))
            return self._split_ite(t, v.a, depth + 1) + self._split_ite(f, v.b, depth + 1)
        return [(st, v)]

    def assign(self, tgt, v, st):
        if isinstance(tgt, ast.Name):
            st.env[tgt.id] = v
            return [st]
        if isinstance(tgt, ast.Subscript) and isinstance(tgt.value, ast.Name):
            base = st.env.get(tgt.value.id)
            key = tgt.slice
            if isinstance(base, LD) and isinstance(key, ast.Constant):
                st.env[tgt.value.id] = base.set(key.value, v)
                return [st]
            if isinstance(base, SD):
                kv = self.eval_pure(key, st)
                st.env[tgt.value.id] = base.store(kv, v)
                return [st]
            raise NotInSubset("subscript store on a non-local container", tgt)
        if isinstance(tgt, ast.Tuple):
            if isinstance(v, Ob) and isinstance(v.o, (tuple, list)) and len(v.o) == len(tgt.elts):
                v = LL("tuple", [Ob(x) for x in v.o])
            if isinstance(v, LL) and len(v.items) == len(tgt.elts):
                for t, x in zip(tgt.elts, v.items):
                    self.assign(t, x, st)
                return [st]
            raise NotInSubset("tuple unpacking of a symbolic value", tgt)
        if isinstance(tgt, ast.Attribute):
            h = self.hooks.get("attr_store")
            if h:
                return h(self, tgt, v, st)
        raise NotInSubset(f"assignment target {type(tgt).__name__}", tgt)

    def st_If(self, s, st):
        oks, bad = self._fork_eval(s.test, st)
        out = [(b, ("raise", e)) for b, e in bad]
        for a, v in oks:
            c = z3.simplify(self.eng.truth(v))
            if z3.is_true(c):
                out.extend(self.exec_block(s.body, a))
            elif z3.is_false(c):
                out.extend(self.exec_block(s.orelse, a))
            else:
                t = a.clone()
                t.pc.append(c)
                out.extend(self.exec_block(s.body, t))
                f = a.clone()
                f.pc.append(z3.Not(c))
                out.extend(self.exec_block(s.orelse, f))
        return out

    def st_Raise(self, s, st):
        if s.exc is None:
            if st.cur_exc is None:
                raise NotInSubset("bare raise outside handler", s)
            return [(st, ("raise", st.cur_exc))]
        from_none = isinstance(s.cause, ast.Constant) and s.cause.value is None
        if s.cause is not None and not from_none:
            raise NotInSubset("raise ... from <expr>", s)
        node = s.exc
        if isinstance(node, ast.Call):
            ctx = EvalCtx()
            fn = self.eval(node.func, st, ctx)
            args = [self.eval(a, st, ctx) for a in node.args]
            kw = [(k.arg, self.eval(k.value, st, ctx)) for k in node.keywords]
            oks, bad = self._fork_ctx(st, ctx, None)
            out = [(b, ("raise", e)) for b, e in bad]
            if not (isinstance(fn, Ob) and isinstance(fn.o, type) and issubclass(fn.o, BaseException)):
                raise NotInSubset("raise of a non-class callee", s)
            for a, _ in oks:
                out.append((a, ("raise", Exc(fn, args, kw, from_none=from_none, origin=f"line {s.lineno}"))))
            return out
        oks, bad = self._fork_eval(node, st)
        out = [(b, ("raise", e)) for b, e in bad]
        for a, v in oks:
            if isinstance(v, Ob) and isinstance(v.o, type):
                out.append((a, ("raise", Exc(v, [], [], from_none=from_none))))
            else:
                out.append((a, ("raise", Exc(None, term=self.eng.term(v), from_none=from_none))))
        return out

    def st_Try(self, s, st):
        out = []
        body = self.exec_block(s.body, st)
        after = []
        for (cur, sig) in body:
            if sig is not None and sig[0] == "raise":
                after.extend(self._handle(s, cur, sig[1]))
            elif sig is None and s.orelse:
                after.extend(self.exec_block(s.orelse, cur))
            else:
                after.append((cur, sig))
        if s.finalbody:
            for (cur, sig) in after:
                for (c2, sig2) in self.exec_block(s.finalbody, cur):
                    out.append((c2, sig2 if sig2 is not None else sig))
            return out
        return after

    def _handle(self, s, st, exc):
        out = []
        remaining = [st]
        for h in s.handlers:
            nxt = []
            for cur in remaining:
                if h.type is None:
                    match = z3.BoolVal(True)
                else:
                    match = self.exc_matches(exc, h.type, cur)
                match = z3.simplify(match)
                if not z3.is_false(match):
                    t = cur.clone()
                    if not z3.is_true(match):
                        t.pc.append(match)
                    saved = t.cur_exc
                    t.cur_exc = exc
                    if h.name:
                        t.env[h.name] = Tm(exc.term) if exc.cls is None else Call(("excobj", id(exc)), "excobj", [])
                    for (c2, sig2) in self.exec_block(h.body, t):
                        c2.cur_exc = saved
                        out.append((c2, sig2))
                if not z3.is_true(match):
                    f = cur.clone()
                    if not z3.is_false(match):
                        f.pc.append(z3.Not(match))
                    nxt.append(f)
            remaining = nxt
        for cur in remaining:
            out.append((cur, ("raise", exc)))
        return out

    def exc_matches(self, exc, tnode, st):
        tv = self.eval_pure(tnode, st)
        classes = []
        if isinstance(tv, Ob) and isinstance(tv.o, type):
            classes = [tv.o]
        elif isinstance(tv, LL) and all(isinstance(x, Ob) for x in tv.items):
            classes = [x.o for x in tv.items]
        elif isinstance(tv, Ob) and isinstance(tv.o, tuple):
            classes = list(tv.o)
        else:
            raise NotInSubset("except clause type", tnode)
        if exc.cls is not None:
            return z3.BoolVal(any(issubclass(exc.cls.o, c) for c in classes))
        t = self.eng.typeof(exc.term)
        return z3.Or(*[self.eng.issub(t, self.eng.const(c)) for c in classes])

    def st_Continue(self, s, st):
        return [(st, ("continue",))]

    def st_Break(self, s, st):
        return [(st, ("break",))]

    def st_For(self, s, st):
        """for-loops over an iterable of known, concrete length are unrolled completely (DESIGN
        2.5 rule 1): tuples/lists of concrete objects, or a display whose items are known"""
        oks, bad = self._fork_eval(s.iter, st)
        out = [(b, ("raise", e)) for b, e in bad]
        for a, it in oks:
            if isinstance(it, LL):
                items = list(it.items)
            elif isinstance(it, Ob) and isinstance(it.o, (list, tuple)):
                items = [Ob(x) for x in it.o]
            else:
                raise NotInSubset("for-loop over a symbolic iterable", s)
            states = [a]
            broke = []
            for item in items:
                nxt = []
                for cur in states:
                    cur = cur.clone()
                    for t in self.assign(s.target, item, cur):
                        for (c2, sig) in self.exec_block(s.body, t):
                            if sig is None or sig[0] == "continue":
                                nxt.append(c2)
                            elif sig[0] == "break":
                                broke.append(c2)
                            else:
                                out.append((c2, sig))
                states = nxt
                if len(states) + len(out) > _MAXPATHS:
                    raise NotInSubset("path explosion in loop", s)
            for cur in states:
                if s.orelse:
                    out.extend(self.exec_block(s.orelse, cur))
                else:
                    out.append((cur, None))
            for cur in broke:
                out.append((cur, None))
        return out

    def st_FunctionDef(self, s, st):
        st.env[s.name] = Ob(("closure", s))
        return [(st, None)]

    # ---------------- expressions (merged)
    def eval(self, node, st, ctx):
        m = getattr(self, "ev_" + type(node).__name__, None)
        if m is None:
            raise NotInSubset(f"expression {type(node).__name__}", node)
        return m(node, st, ctx)

    def ev_Constant(self, node, st, ctx):
        return Ob(node.value)

    def ev_Name(self, node, st, ctx):
        n = node.id
        if n in st.env:
            return st.env[n]
        if n in ctx.scopes:
            return ctx.scopes[n]
        if n in self.ns:
            return Ob(self.ns[n])
        if hasattr(builtins, n):
            return Ob(getattr(builtins, n))
        self.unresolved.append((n, getattr(node, "lineno", 0)))
        ctx.add_raise(z3.BoolVal(True), Exc(Ob(NameError), [Ob(n)], origin=f"name {n}"))
        return Tm(self.eng.fresh("undefined"))

    def ev_Attribute(self, node, st, ctx):
        base = self.eval(node.value, st, ctx)
        return self.getattr(base, node.attr, node, st, ctx)

    def getattr(self, base, name, node, st, ctx):
        eng = self.eng
        if isinstance(base, Ob):
            h = self.hooks.get("ob_attr")
            if h:
                r = h(self, base, name, node, st, ctx)
                if r is not None:
                    return r
            try:
                return Ob(getattr(base.o, name))
            except AttributeError:
                self.attr_fail.append((ast.unparse(node) if node is not None else name, getattr(node, "lineno", 0)))
                ctx.add_raise(z3.BoolVal(True), Exc(Ob(AttributeError), [Ob(name)], origin=f"attr {name}"))
                return Tm(eng.fresh("noattr"))
        if isinstance(base, Ite):
            a = self.getattr(base.a, name, node, st, ctx.guarded(base.c))
            b = self.getattr(base.b, name, node, st, ctx.guarded(z3.Not(base.c)))
            return Ite(base.c, a, b)
        if isinstance(base, (LD, LL, Comp, KeySet)):
            return Ob(("boundlocal", base, name))
        h = self.hooks.get("tm_attr")
        if h:
            r = h(self, base, name, node, st, ctx)
            if r is not None:
                return r
        t = eng.term(base)
        if not self.assume_hasattr:
            eng.attr_names.add(name)
            ctx.add_raise(
                z3.Not(eng.hasattr_(eng.typeof(t), eng.const(name))),
                Exc(Ob(AttributeError), [Ob(name)], origin=f"attr {name}"),
            )
        if name == "__class__":
            return Tm(eng.typeof(t))
        f = eng.func(f"attr!{name}", eng.V, eng.V)
        return Tm(f(t))

    def ev_IfExp(self, node, st, ctx):
        c = self.eng.truth(self.eval(node.test, st, ctx))
        c = z3.simplify(c)
        if z3.is_true(c):
            return self.eval(node.body, st, ctx)
        if z3.is_false(c):
            return self.eval(node.orelse, st, ctx)
        a = self.eval(node.body, st, ctx.guarded(c))
        b = self.eval(node.orelse, st, ctx.guarded(z3.Not(c)))
        return Ite(c, a, b)

    def ev_BoolOp(self, node, st, ctx):
        vals = node.values
        v = self.eval(vals[0], st, ctx)
        for nxt in vals[1:]:
            c = z3.simplify(self.eng.truth(v))
            if isinstance(node.op, ast.And):
                if z3.is_false(c):
                    return v
                if z3.is_true(c):
                    v = self.eval(nxt, st, ctx)
                    continue
                w = self.eval(nxt, st, ctx.guarded(c))
                v = Ite(c, w, v)
            else:
                if z3.is_true(c):
                    return v
                if z3.is_false(c):
                    v = self.eval(nxt, st, ctx)
                    continue
                w = self.eval(nxt, st, ctx.guarded(z3.Not(c)))
                v = Ite(c, v, w)
        return v

    def ev_UnaryOp(self, node, st, ctx):
        v = self.eval(node.operand, st, ctx)
        if isinstance(node.op, ast.Not):
            return Bl(z3.Not(self.eng.truth(v)))
        if isinstance(node.op, ast.USub) and isinstance(v, Ob) and isinstance(v.o, (int, float)):
            return Ob(-v.o)
        raise NotInSubset("unary operator", node)

    def ev_BinOp(self, node, st, ctx):
        a = self.eval(node.left, st, ctx)
        b = self.eval(node.right, st, ctx)
        if isinstance(node.op, ast.Sub) and isinstance(a, LL) and a.kind == "set" and isinstance(b, LL) and all(isinstance(x, Ob) for x in a.items + b.items):
            return LL("set", [x for x in a.items if not any(_const_eq(x.o, y.o) for y in b.items)])
        if isinstance(node.op, ast.Sub) and isinstance(a, KeySet):
            if isinstance(b, LL) and all(isinstance(x, Ob) for x in b.items):
                return KeySet(a.d, a.minus + [x.o for x in b.items])
            if isinstance(b, Ob) and isinstance(b.o, (set, frozenset)):
                return KeySet(a.d, a.minus + list(b.o))
        if isinstance(a, Ob) and isinstance(b, Ob) and type(a.o) in _VALUE_CONST_TYPES and type(b.o) in _VALUE_CONST_TYPES:
            import operator

            ops = {ast.Add: operator.add, ast.Sub: operator.sub, ast.Mult: operator.mul, ast.Mod: operator.mod}
            f = ops.get(type(node.op))
            if f is not None:
                try:
                    return Ob(f(a.o, b.o))
                except Exception as e:
                    ctx.add_raise(z3.BoolVal(True), Exc(Ob(type(e)), []))
                    return Tm(self.eng.fresh("binop"))
        h = self.hooks.get("binop")
        if h:
            r = h(self, node, a, b, st, ctx)
            if r is not None:
                return r
        raise NotInSubset(f"binary operator {type(node.op).__name__}", node)

    def ev_Compare(self, node, st, ctx):
        left = self.eval(node.left, st, ctx)
        res = None
        for op, rnode in zip(node.ops, node.comparators):
            right = self.eval(rnode, st, ctx)
            c = self.compare(op, left, right, node, ctx)
            res = c if res is None else z3.And(res, c)
            left = right
        return Bl(res)

    def compare(self, op, a, b, node, ctx):
        eng = self.eng
        if isinstance(op, ast.Is):
            return eng.is_(a, b)
        if isinstance(op, ast.IsNot):
            return z3.Not(eng.is_(a, b))
        if isinstance(op, (ast.In, ast.NotIn)):
            if isinstance(b, LL):
                c = z3.Or(*[self.py_eq(a, x) for x in b.items]) if b.items else z3.BoolVal(False)
            elif isinstance(b, Ob) and isinstance(b.o, (tuple, list, set, frozenset)):
                c = z3.Or(*[self.py_eq(a, Ob(x)) for x in b.o]) if b.o else z3.BoolVal(False)
            elif isinstance(a, Ob) and isinstance(a.o, str) and isinstance(b, Ob) and hasattr(b.o, "__contains__"):
                c = z3.BoolVal(a.o in b.o)
            elif isinstance(a, Ob) and isinstance(b, (Tm, Call)):
                c = eng.haskey(eng.term(b), eng.term(a))
            else:
                h = self.hooks.get("contains")
                c = h(self, a, b, node, ctx) if h else None
                if c is None:
                    raise NotInSubset("`in` over a symbolic container", node)
            return z3.Not(c) if isinstance(op, ast.NotIn) else c
        if isinstance(op, ast.Eq):
            return self.py_eq(a, b)
        if isinstance(op, ast.NotEq):
            return z3.Not(self.py_eq(a, b))
        raise NotInSubset(f"comparison {type(op).__name__}", node)

    def py_eq(self, a, b):
        """python == ; A4: != is the negation of =="""
        eng = self.eng
        if isinstance(a, Ob) and isinstance(b, Ob):
            try:
                return z3.BoolVal(bool(a.o == b.o))
            except Exception:
                pass
        if isinstance(a, Ite):
            return z3.If(a.c, self.py_eq(a.a, b), self.py_eq(a.b, b))
        if isinstance(b, Ite):
            return z3.If(b.c, self.py_eq(a, b.a), self.py_eq(a, b.b))
        # classes and singletons compare by identity
        for x in (a, b):
            if isinstance(x, Ob) and (isinstance(x.o, type) or x.o is None):
                return eng.is_(a, b)
        if _has_fresh(a) or _has_fresh(b):
            raise NotInSubset("== on a locally built container")
        return eng.pyeq(eng.term(a), eng.term(b))

    def ev_Tuple(self, node, st, ctx):
        return self._display("tuple", node, st, ctx)

    def ev_List(self, node, st, ctx):
        return self._display("list", node, st, ctx)

    def ev_Set(self, node, st, ctx):
        return self._display("set", node, st, ctx)

    def _display(self, kind, node, st, ctx):
        items = []
        for e in node.elts:
            if isinstance(e, ast.Starred):
                v = self.eval(e.value, st, ctx)
                if isinstance(v, LL):
                    items.extend(v.items)
                elif isinstance(v, Ob) and isinstance(v.o, (tuple, list)):
                    items.extend(Ob(x) for x in v.o)
                elif isinstance(v, Ob) and type(v.o).__module__ in ("typing", "types", "typing_extensions"):
                    items.extend(Ob(x) for x in list(v.o))  # *Tuple[...] in a type expression
                else:
                    items.append(Call(("star",), "star", [v]))
            else:
                items.append(self.eval(e, st, ctx))
        return LL(kind, items)

    def ev_Dict(self, node, st, ctx):
        items = []
        for k, v in zip(node.keys, node.values):
            if k is None:
                inner = self.eval(v, st, ctx)
                if isinstance(inner, LD):
                    for kk, vv in inner.items:
                        items = LD(items).set(kk, vv).items
                    continue
                raise NotInSubset("** of a symbolic mapping in a dict display", node)
            kv = self.eval(k, st, ctx)
            if not (isinstance(kv, Ob) and type(kv.o) in _VALUE_CONST_TYPES):
                raise NotInSubset("non-constant key in a dict display", node)
            vv = self.eval(v, st, ctx)
            items = LD(items).set(kv.o, vv).items
        return LD(items)

    def ev_JoinedStr(self, node, st, ctx):
        parts = []
        for p in node.values:
            if isinstance(p, ast.Constant):
                parts.append(Ob(p.value))
            else:
                parts.append(self.eval(p.value, st, ctx))
        if all(isinstance(p, Ob) and isinstance(p.o, str) for p in parts):
            return Ob("".join(p.o for p in parts))
        return Call(("fstring",), "fstring", parts)

    def ev_Subscript(self, node, st, ctx):
        base = self.eval(node.value, st, ctx)
        sl = node.slice
        if isinstance(sl, ast.Slice):
            parts = []
            for p in (sl.lower, sl.upper, sl.step):
                if p is None:
                    parts.append(None)
                else:
                    pv = self.eval(p, st, ctx)
                    if not (isinstance(pv, Ob) and (isinstance(pv.o, int) or pv.o is None)):
                        raise NotInSubset("non-constant slice bound", node)
                    parts.append(pv.o)
            key = ("slice",) + tuple(parts)
            return self.opaque_call(key, f"slice[{parts[0]}:{parts[1]}:{parts[2]}]", [base], [], ctx, node)
        idx = self.eval(sl, st, ctx)
        if isinstance(base, SD):
            return self.sd_lookup(base, idx, ctx)
        if isinstance(base, LD) and isinstance(idx, Ob):
            v = base.get(idx.o)
            if v is None:
                ctx.add_raise(z3.BoolVal(True), Exc(Ob(KeyError), [idx]))
                return Tm(self.eng.fresh("nokey"))
            return v
        if isinstance(base, LL) and isinstance(idx, Ob) and isinstance(idx.o, int):
            try:
                return base.items[idx.o]
            except IndexError:
                ctx.add_raise(z3.BoolVal(True), Exc(Ob(IndexError), []))
                return Tm(self.eng.fresh("noitem"))
        if isinstance(base, Ob) and isinstance(idx, LL) and idx.kind == "tuple" and all(isinstance(x, Ob) for x in idx.items):
            idx = Ob(tuple(x.o for x in idx.items))
        if isinstance(base, Ob) and isinstance(idx, Ob):
            try:
                return Ob(base.o[idx.o])
            except Exception as e:  # concrete failure
                ctx.add_raise(z3.BoolVal(True), Exc(Ob(type(e)), []))
                return Tm(self.eng.fresh("noitem"))
        h = self.hooks.get("subscript")
        if h:
            r = h(self, base, idx, node, st, ctx)
            if r is not None:
                return r
        return self.opaque_call(("getitem",), "getitem", [base, idx], [], ctx, node)

    def sd_lookup(self, sd, idx, ctx):
        eng = self.eng
        k = eng.term(idx)
        val = None
        present = eng.haskey(sd.base, k)
        base_val = Tm(eng.dval(sd.base, k))
        conds = []
        for (uk, uv) in sd.updates:
            conds.append((k == eng.term(uk), uv))
        anyupd = z3.Or(*[c for c, _ in conds]) if conds else z3.BoolVal(False)
        ctx.add_raise(z3.And(z3.Not(anyupd), z3.Not(present)), Exc(Ob(KeyError), [idx], origin="registry lookup"))
        val = base_val
        for c, uv in conds:  # later stores win
            val = Ite(c, uv, val)
        return val

    # ---- comprehensions
    def ev_ListComp(self, node, st, ctx):
        return self._comp("list", node, node.elt, st, ctx)

    def ev_SetComp(self, node, st, ctx):
        return self._comp("set", node, node.elt, st, ctx)

    def ev_GeneratorExp(self, node, st, ctx):
        return self._comp("gen", node, node.elt, st, ctx)

    def ev_DictComp(self, node, st, ctx):
        return self._comp("dict", node, (node.key, node.value), st, ctx)

    def _comp(self, kind, node, elt, st, ctx):
        eng = self.eng
        if len(node.generators) != 1:
            raise NotInSubset("comprehension with several generators", node)
        g = node.generators[0]
        if g.ifs or g.is_async:
            raise NotInSubset("comprehension filter", node)
        src = self.eval(g.iter, st, ctx)  # evaluated in the enclosing scope
        if isinstance(src, (LL,)):
            raise NotInSubset("comprehension over a local display", node)
        srct = eng.term(src)
        if _has_ite(srct):
            # patterns may not contain ite terms: name the source
            if getattr(ctx, "in_comp", False):
                raise NotInSubset("conditional iteration source inside a comprehension", node)
            nm = eng.fresh("src")
            ctx.hyps.append(nm == srct)
            if isinstance(src, Call) and src.key == ("meth", "items"):
                self._items_of = getattr(self, "_items_of", {})
                eng.items_of[nm.get_id()] = eng.term(src.args[0])
            srct = nm
        ctx.add_raise(z3.Not(eng.iterable(srct)), Exc(Ob(TypeError), [], origin="not iterable"))
        if isinstance(g.target, ast.Name):
            names = [g.target.id]
            pattern = "name"
        elif isinstance(g.target, ast.Tuple) and all(isinstance(e, ast.Name) for e in g.target.elts):
            names = [e.id for e in g.target.elts]
            pattern = ("tuple", len(names))
        else:
            raise NotInSubset("comprehension target", node)
        bound = [eng.fresh(f"b_{n}") for n in names]
        inner = EvalCtx()
        inner.in_comp = True
        inner.scopes = dict(ctx.scopes)
        # comprehension scope: loop variables shadow everything
        st2 = st.clone()
        for n, b in zip(names, bound):
            st2.env[n] = Tm(b)
        eng.bound_stack.extend(bound)
        try:
            if kind == "dict":
                body = (self.eval(elt[0], st2, inner), self.eval(elt[1], st2, inner))
            else:
                body = self.eval(elt, st2, inner)
        finally:
            del eng.bound_stack[len(eng.bound_stack) - len(bound):]
        mem = eng.member(Tm(srct), bound, pattern)
        # the comprehension raises iff the body raises for some element
        if inner.raises:
            anyr = z3.Or(*[c for c, _ in inner.raises])
            hy = z3.And(*inner.hyps) if inner.hyps else z3.BoolVal(True)
            cond = z3.Exists(bound, z3.And(mem, hy, anyr))
            et = eng.fresh("exc_in_comp")
            ctx.hyps.append(eng.issub(eng.typeof(et), eng.const(Exception)))  # A3
            ctx.add_raise(cond, Exc(None, term=et, origin="comprehension body"))
        if inner.hyps:
            ctx.hyps.append(z3.ForAll(bound, z3.Implies(mem, z3.And(*inner.hyps)), patterns=[mem]))
        ctx.ghosts.extend(("each", tuple(bound), mem, gh) for gh in inner.ghosts)
        return Comp(kind, Tm(srct), bound, body, pattern, outer=tuple(eng.bound_stack))

    # ---- calls
    def ev_Call(self, node, st, ctx):
        fn_node = node.func
        # method call on a non-concrete receiver
        if isinstance(fn_node, ast.Attribute):
            recv = self.eval(fn_node.value, st, ctx)
            if not isinstance(recv, Ob):
                args, kw = self._args(node, st, ctx)
                return self.method_call(recv, fn_node.attr, args, kw, node, st, ctx)
            fn = self.getattr(recv, fn_node.attr, fn_node, st, ctx)
        else:
            fn = self.eval(fn_node, st, ctx)
        args, kw = self._args(node, st, ctx)
        return self.call(fn, args, kw, node, st, ctx)

    def _args(self, node, st, ctx):
        args = []
        for a in node.args:
            if isinstance(a, ast.Starred):
                v = self.eval(a.value, st, ctx)
                if isinstance(v, LL):
                    args.extend(v.items)
                elif isinstance(v, Ob) and isinstance(v.o, (tuple, list)):
                    args.extend(Ob(x) for x in v.o)
                else:
                    args.append(Call(("star",), "star", [v]))
            else:
                args.append(self.eval(a, st, ctx))
        kw = []
        for k in node.keywords:
            v = self.eval(k.value, st, ctx)
            if k.arg is None:
                if isinstance(v, LD):
                    for kk, vv in v.items:
                        kw.append((kk, vv))
                else:
                    raise NotInSubset("** of a symbolic mapping", node)
            else:
                kw.append((k.arg, v))
        return args, kw

    def method_call(self, recv, name, args, kw, node, st, ctx):
        eng = self.eng
        if isinstance(recv, Ite):
            a = self.method_call(recv.a, name, args, kw, node, st, ctx.guarded(recv.c))
            b = self.method_call(recv.b, name, args, kw, node, st, ctx.guarded(z3.Not(recv.c)))
            return Ite(recv.c, a, b)
        h = self.hooks.get("method_call")
        if h:
            r = h(self, recv, name, args, kw, node, st, ctx)
            if r is not None:
                return r
        if isinstance(recv, Ob):
            # a concrete receiver reached through a conditional value: ordinary attribute call
            return self.call(self.getattr(recv, name, node, st, ctx), args, kw, node, st, ctx)
        if name in self.inline and not isinstance(recv, (LD, LL, Comp, KeySet)):
            fdef, ns, binds = self.inline[name]
            params = [a.arg for a in fdef.args.posonlyargs + fdef.args.args]
            if params and params[0] in ("self", "cls"):
                return self._inline_def(fdef, ns, [recv] + list(args), kw, node, ctx)
        if isinstance(recv, LD):
            if name == "get" and args and isinstance(args[0], Ob):
                v = recv.get(args[0].o)
                return v if v is not None else (args[1] if len(args) > 1 else Ob(None))
            if name == "get" and args and not recv.items and not kw:
                # {}.get(k, d) is d for every hashable k (an unhashable k raises TypeError: callers state
                # hashability of k as a precondition)
                return args[1] if len(args) > 1 else Ob(None)
            if name == "copy" and not args:
                return LD(recv.items)
            if name == "keys" and not args:
                return LL("set", [Ob(k) for k, _ in recv.items])
            raise NotInSubset(f"method {name} on a local dict", node)
        if isinstance(recv, (LL, Comp, KeySet)):
            raise NotInSubset(f"method {name} on a local container", node)
        t = eng.term(recv)
        if not self.assume_hasattr:
            eng.attr_names.add(name)
            ctx.add_raise(
                z3.Not(eng.hasattr_(eng.typeof(t), eng.const(name))),
                Exc(Ob(AttributeError), [Ob(name)], origin=f"method {name}"),
            )
        if name == "get" and 1 <= len(args) <= 2 and not kw:
            self.eng.trusted.add("dict.get model: get(k, default) = dval(d,k) if haskey(d,k) else default (receiver is a dict whenever it has .get, by precondition)")
            k = eng.term(args[0])
            dflt = args[1] if len(args) > 1 else Ob(None)
            return Ite(eng.haskey(t, k), Tm(eng.dval(t, k)), dflt)
        if name == "keys" and not args and not kw:
            return Call(("meth", "keys"), "keys", [Tm(t)])
        if name in ("items", "values") and not args and not kw:
            return Call(("meth", name), name, [Tm(t)])
        return self.opaque_call(("meth", name), f"meth_{name}", [Tm(t)] + args, kw, ctx, node)

    def call(self, fn, args, kw, node, st, ctx):
        eng = self.eng
        if isinstance(fn, Ite):
            a = self.call(fn.a, args, kw, node, st, ctx.guarded(fn.c))
            b = self.call(fn.b, args, kw, node, st, ctx.guarded(z3.Not(fn.c)))
            return Ite(fn.c, a, b)
        h = self.hooks.get("call")
        if h:
            r = h(self, fn, args, kw, node, st, ctx)
            if r is not None:
                return r
        if isinstance(fn, Ob):
            o = fn.o
            r = self._try_inline(o, args, kw, node, st, ctx)
            if r is not None:
                return r
            if isinstance(o, tuple) and o and o[0] == "boundlocal":
                return self.method_call(o[1], o[2], args, kw, node, st, ctx)
            if o is isinstance and len(args) == 2:
                return Bl(self.isinstance_(args[0], args[1], node))
            if o is type and len(args) == 1:
                a = args[0]
                if isinstance(a, Ob):
                    return Ob(type(a.o))
                if isinstance(a, LD):
                    return Ob(dict)
                if isinstance(a, LL):
                    return Ob({"list": list, "tuple": tuple, "set": set}[a.kind])
                return Tm(eng.typeof(eng.term(a)))
            if o is set and len(args) == 1 and isinstance(args[0], Call) and args[0].key == ("meth", "keys"):
                return KeySet(args[0].args[0])
            if o is set and not args:
                return LL("set", [])
            if o is set and len(args) == 1 and isinstance(args[0], LL):
                return LL("set", args[0].items)
            if o is dict and not args and not kw:
                return LD([])
            if o in (tuple, list) and len(args) == 1 and isinstance(args[0], LL):
                return LL(o.__name__, args[0].items)
            if o in (tuple, list, set, frozenset) and len(args) == 1 and isinstance(args[0], Comp):
                # conversion of a fresh sequence: pure, cannot raise
                return Call(("builtin", o.__name__), o.__name__, [args[0]])
            if o is getattr and len(args) in (2, 3) and isinstance(args[1], Ob) and isinstance(args[1].o, str):
                if len(args) == 2:
                    return self.getattr(args[0], args[1].o, node, st, ctx)
                sub = EvalCtx()
                v = self.getattr(args[0], args[1].o, node, st, sub)
                if sub.raises:
                    c = z3.Or(*[c for c, _ in sub.raises])
                    return Ite(c, args[2], v)
                return v
            if isinstance(o, type) and issubclass(o, BaseException):
                return Call(("exc", id(o)), _short(o), args, kw)
            key = _const_key(o)
            return self.opaque_call(key, _short(o), args, kw, ctx, node)
        # callee is symbolic (e.g. a parameter holding a function)
        t = eng.term(fn)
        return self.opaque_call(("dyn",), "dyncall", [Tm(t)] + args, kw, ctx, node)

    def _try_inline(self, o, args, kw, node, st, ctx):
        if not self.inline:
            return None
        first = None
        f = o
        if isinstance(o, pytypes.MethodType):
            f = o.__func__
            first = Ob(o.__self__)
        if isinstance(f, tuple) and len(f) == 2 and f[0] == "closure":
            name = f[1].name
        else:
            name = getattr(f, "__name__", None)
        ent = self.inline.get(name)
        if ent is None:
            return None
        fdef, ns, binds = ent
        call_args = ([first] if first is not None else []) + list(args)
        return self._inline_def(fdef, ns, call_args, kw, node, ctx)

    def _inline_def(self, fdef, ns, call_args, kw, node, ctx):
        if self.inline_depth > 6:
            raise NotInSubset("inlining depth", node)
        sub = Executor(self.eng, ns, hooks=self.hooks)
        sub.nonraising = self.nonraising
        sub.nonraising_prefixes = self.nonraising_prefixes
        sub.assume_hasattr = self.assume_hasattr
        sub.inline = self.inline
        sub.inline_depth = self.inline_depth + 1
        sub.ghost_calls = self.ghost_calls
        params = [a.arg for a in fdef.args.posonlyargs + fdef.args.args]
        if len(call_args) > len(params):
            raise NotInSubset("too many arguments for an inlined function", node)
        amap = dict(zip(params, call_args))
        for k, v in kw:
            amap[k] = v
        paths = sub.run(fdef, amap)
        self.unresolved.extend(sub.unresolved)
        self.attr_fail.extend(sub.attr_fail)
        return self.merge_paths(paths, ctx)

    def merge_paths(self, paths, ctx):
        """summary of a function body as a merged value + guarded raise entries"""
        rets = [p for p in paths if p.kind == "return"]
        val = None
        for p in paths:
            for h in p.pc[len(p.branch):]:
                ctx.hyps.append(h)
        for p in paths:
            if p.kind == "raise":
                ctx.add_raise(z3.And(*p.branch) if p.branch else z3.BoolVal(True), p.value)
            ctx.ghosts.extend(("guarded", z3.And(*p.branch) if p.branch else z3.BoolVal(True), g) for g in p.ghosts)
        for p in reversed(rets):
            if val is None:
                val = p.value
            else:
                val = Ite(z3.And(*p.branch) if p.branch else z3.BoolVal(True), p.value, val)
        if val is None:
            val = Tm(self.eng.fresh("noreturn"))
        return val

    def isinstance_(self, v, cls, node):
        eng = self.eng
        if isinstance(cls, LL):
            return z3.Or(*[self.isinstance_(v, c, node) for c in cls.items])
        if isinstance(cls, Ob) and isinstance(cls.o, tuple):
            return z3.Or(*[self.isinstance_(v, Ob(c), node) for c in cls.o])
        if isinstance(v, Ob) and isinstance(cls, Ob):
            return z3.BoolVal(isinstance(v.o, cls.o))
        if isinstance(v, LD) and isinstance(cls, Ob):
            return z3.BoolVal(issubclass(dict, cls.o))
        if isinstance(v, Ite):
            return z3.If(v.c, self.isinstance_(v.a, cls, node), self.isinstance_(v.b, cls, node))
        return eng.issub(eng.typeof(eng.term(v)), eng.term(cls))

    def opaque_call(self, key, name, args, kw, ctx, node=None):
        """uninterpreted pure call: may raise (raises!f(args)), returns call!f(args)"""
        eng = self.eng
        label = self.ghost_calls.get(key)
        quiet = key in self.nonraising or (isinstance(key, tuple) and len(key) == 2 and key[0] == "meth"
                                           and any(str(key[1]).startswith(p) for p in self.nonraising_prefixes))
        if label is not None:
            # a call is an event whether or not it goes on to raise
            ctx.ghosts.append(("call", label, tuple(args), tuple(kw), ctx.guard_cond()))
        if not quiet:
            r = eng.raises_pred(key, name, args, kw)
            et = eng.exc_term(key, name, args, kw)
            eng.axioms_once = getattr(eng, "axioms_once", set())
            ctx.add_raise(r, Exc(None, term=et, origin=name))
            # A3: opaque callees raise only Exception subclasses
            ctx.hyps.append(eng.issub(eng.typeof(et), eng.const(Exception)))
        v = Call(key, name, args, kw)
        return v


class EvalCtx:
    """evaluation context of one expression: guard (short-circuit), guarded raise entries,
    hypotheses introduced (definitional facts), ghost events"""

    def __init__(self, guard=None, parent=None):
        self.guard = guard or []
        if parent is None:
            self.raises = []
            self.hyps = []
            self.ghosts = []
            self.scopes = {}
            self._ghost_marks = []
        else:
            self.raises = parent.raises
            self.hyps = parent.hyps
            self.ghosts = parent.ghosts
            self.scopes = parent.scopes
            self._ghost_marks = parent._ghost_marks

    def guarded(self, c):
        e = EvalCtx(self.guard + [c], self)
        e.in_comp = getattr(self, "in_comp", False)
        return e

    def guard_cond(self):
        return z3.And(*self.guard) if self.guard else z3.BoolVal(True)

    def add_raise(self, cond, exc):
        c = z3.And(*(self.guard + [cond])) if self.guard else cond
        c = z3.simplify(c)
        if z3.is_false(c):
            return
        self.raises.append((c, exc))
        self._ghost_marks.append((c, len(self.ghosts)))

    def ghosts_before(self, cond):
        for c, n in self._ghost_marks:
            if c is cond:
                return self.ghosts[:n]
        return list(self.ghosts)


# ---------------------------------------------------------------------------------------------
# solving
# ---------------------------------------------------------------------------------------------
class Verdict:
    def __init__(self, name, status, model=None, time_s=0.0, backend="z3", detail=""):
        self.name = name
        self.status = status  # proved | refuted | unknown
        self.model = model
        self.time_s = time_s
        self.backend = backend
        self.detail = detail

    def __repr__(self):
        return f"{self.name}: {self.status} ({self.time_s*1000:.0f} ms) {self.detail}"


class Prover:
    def __init__(self, eng: Engine, timeout_ms=10000, extra_axioms=()):
        self.eng = eng
        # VERIF_TIMEOUT_SCALE < 1 is a diagnostic: it shows which obligations sit close to the budget
        self.timeout_ms = max(1, int(timeout_ms * float(os.environ.get("VERIF_TIMEOUT_SCALE", "1") or 1)))
        self.extra = list(extra_axioms)
        self.queries = 0
        self.time_s = 0.0

    def _solver(self):
        s = z3.Solver()
        s.set("timeout", self.timeout_ms)
        for a in self.eng.ground_axioms() + self.extra:
            s.add(a)
        return s

    def prove(self, name, hyps, goal):
        """valid(hyps => goal)?"""
        t0 = time.time()
        s = self._solver()
        for h in hyps:
            s.add(h)
        s.add(z3.Not(goal))
        r = s.check()
        dt = time.time() - t0
        self.queries += 1
        self.time_s += dt
        if r == z3.unsat:
            return Verdict(name, "proved", None, dt)
        if r == z3.sat:
            return Verdict(name, "refuted", s.model(), dt)
        return Verdict(name, "unknown", None, dt, detail=s.reason_unknown())

    def sat(self, hyps, timeout_ms=1500):
        """satisfiability (cover / vacuity) query; short budget: `unknown` counts as not vacuous"""
        s = self._solver()
        s.set("timeout", timeout_ms)
        for h in hyps:
            s.add(h)
        t0 = time.time()
        r = s.check()
        self.queries += 1
        self.time_s += time.time() - t0
        return r, (s.model() if r == z3.sat else None)


def parse_functions(text):
    """all (possibly nested) function definitions of a generated text, with the module AST"""
    mod = ast.parse(text)
    fns = [n for n in ast.walk(mod) if isinstance(n, ast.FunctionDef)]
    return mod, fns

"""C12: discriminated unions pick exactly the tagged class in any definition order.

The generated discriminator function is executed symbolically for an arbitrary mapping ``value``
and an ARBITRARY registry state: the variants map is a symbolic dict M constrained only by the
representation invariant  INV(M): M[t] = c  =>  c is an eligible class defined so far and tag(c) = t,
and which classes already own a compiled unpacker is a free boolean per class. The loop over
``iter_all_subclasses(Base)`` is unrolled over the concrete hierarchy of the schema point.
Contract (field mode): missing key -> MissingDiscriminatorError; tag of an eligible class ->
exactly that class's unpacker applied to value (and that unpacker is the class's *own*: slot
obligation); otherwise SuitableVariantNotFoundError; ensures INV (every store is (tag(c), c)).
No-field mode: subclasses (pre-order) then supertypes, the first whose unpacker accepts wins.
Because INV is assumed for *any* M and preserved, and defining a class does not write M, the contract
holds after any interleaving of 'define subclass' and 'deserialize' events (history by invariant).
A bounded battery of concrete histories is the stand-in when a unit leaves the verified subset and
the witness finder for refuted obligations.
"""
from __future__ import annotations

import ast
import dataclasses
import itertools
import time
import types as pytypes
import typing

import z3

from . import build, g4, harvest, pysym, runner
from .pysym import Bl, Call, Exc, Ite, LL, Ob, SD, Tm, _const_key, _short


@dataclasses.dataclass(frozen=True)
class DPoint:
    where: str = "config"  # config | annotated | codec
    field: bool = True
    subtypes: bool = True
    supertypes: bool = False
    base: str = "mixin"  # mixin | plain
    shape: str = "chain"  # flat | chain | untagged_mid | diamond
    tagger: str = "none"  # none | fn | fn_list

    def label(self):
        return (f"[{self.where}/{'field' if self.field else 'nofield'}/{'sub' if self.subtypes else ''}{'+super' if self.supertypes else ''}/"
                f"{self.base}/{self.shape}{'/' + self.tagger if self.tagger != 'none' else ''}]")


def hierarchy_source(p: DPoint, late=False):
    mix = "DataClassDictMixin" if p.base == "mixin" else ""
    disc_args = []
    if p.field:
        disc_args.append("field='kind'")
    disc_args.append(f"include_subtypes={p.subtypes}")
    if p.supertypes:
        disc_args.append("include_supertypes=True")
    if p.tagger == "fn":
        disc_args.append("variant_tagger_fn=_tagger")
    elif p.tagger == "fn_list":
        disc_args.append("variant_tagger_fn=_tagger_list")
    disc = f"Discriminator({', '.join(disc_args)})"
    src = [g4.PRELUDE, "from mashumaro.types import Discriminator",
           "def _tagger(cls):\n    return 'T_' + cls.__name__", "def _tagger_list(cls):\n    return ['T_' + cls.__name__, 'U_' + cls.__name__]"]
    src += ["@dataclass", f"class Base({mix}):" if mix else "class Base:", "    r: int = 0"]
    if p.where == "config":
        src += ["    class Config(BaseConfig):", f"        discriminator = {disc}"]
    def cls(name, parent, tag=True, extra="a: int = 1"):
        out = ["@dataclass", f"class {name}({parent}):"]
        if tag:
            out.append(f"    kind = '{name.lower()}'")
        out.append(f"    {extra}")
        return out
    if p.shape == "flat":
        src += cls("K1", "Base") + cls("K2", "Base", extra="b: str = 'x'")
    elif p.shape == "chain":
        src += cls("K1", "Base") + cls("K2", "K1", extra="b: str = 'x'") + cls("K3", "K2", extra="c: int = 3")
    elif p.shape == "untagged_mid":
        src += cls("K1", "Base", tag=False) + cls("K2", "K1", extra="b: str = 'x'") + cls("K3", "Base", extra="c: int = 3")
    elif p.shape == "diamond":
        src += cls("K1", "Base") + cls("K2", "Base", extra="b: str = 'x'") + cls("K3", "K1, K2", extra="c: int = 3")
    if p.where == "annotated":
        src += ["@dataclass", "class Holder(DataClassDictMixin):", f"    x: Annotated[Base, {disc}]"]
    elif p.where == "codec":
        src += ["from mashumaro.codecs.basic import BasicDecoder", f"DEC = BasicDecoder(Annotated[Base, {disc}])"]
    return "\n".join(src) + "\n"


def valid(p: DPoint):
    if p.where == "config" and (p.base != "mixin" or not p.subtypes or p.supertypes):
        return False
    if not p.subtypes and not p.supertypes:
        return False
    if p.tagger != "none" and not p.field:
        return False
    if p.where == "codec":
        return False  # the holder-registry variant is covered by the history battery only
    return True


# ---------------------------------------------------------------------------------------------
# independent ELIGIBLE / tags
# ---------------------------------------------------------------------------------------------
def all_subclasses(c):
    out = []
    for s in c.__subclasses__():
        for x in [s] + all_subclasses(s):
            if x not in out:  # a diamond reaches its bottom class twice
                out.append(x)
    return out


def eligible(root, subtypes, supertypes):
    e = []
    if subtypes:
        e += all_subclasses(root)
    if supertypes:
        e.append(root)
    return e


def tags_of(c, p: DPoint, mod):
    if p.tagger == "fn":
        return [mod._tagger(c)]
    if p.tagger == "fn_list":
        return list(mod._tagger_list(c))
    if "kind" in c.__dict__:
        return [c.__dict__["kind"]]
    return []


# ---------------------------------------------------------------------------------------------
# symbolic verification of one discriminator function
# ---------------------------------------------------------------------------------------------
class _NotOwn:
    def __repr__(self):
        return "<some ancestor>"


NOTOWN = _NotOwn()


def _variant_builder_problems(c, d):
    """keyword arguments of the run-time build of a variant's unit.  The format's default dialect is forwarded.  The unit is then
    reached as `<variant>.<method>(value, flags)` (mixin / nailed path) - so it has to be the variant's DEFAULT unit (dialect=None; a
    call dialect is an argument of that unit) - or through the holder registry (codec path, attrs=...), where the builder's own
    dialect (always None for codecs) may be forwarded."""
    name = getattr(c, "__name__", c)
    out = []
    if not isinstance(d.get("default_dialect"), Tm):
        out.append(f"variant builder for {name} does not forward _default_dialect")
    dv = d.get("dialect")
    if "attrs" in d:
        if not (isinstance(dv, Tm) or (isinstance(dv, Ob) and dv.o is None)):
            out.append(f"variant builder for {name} (registry path) gets dialect {dv!r}")
    elif not (isinstance(dv, Ob) and dv.o is None):
        out.append(f"variant builder for {name} builds a unit for an arbitrary call dialect ({dv!r}) that is then reached as the attribute of the class: only the dialect cache is filled")
    return out


def verify_discriminator(fn, ns, mod, p: DPoint, method_name="__mashumaro_from_dict__", timeout_ms=10000):
    eng = pysym.Engine()
    root = mod.Base
    elig = eligible(root, p.subtypes, p.supertypes)
    family = [root] + all_subclasses(root)
    # which classes already own a compiled unpacker is arbitrary history for plain dataclasses;
    # mixin classes compile their own at class creation
    own0 = {c: (z3.BoolVal(True) if p.base == "mixin" else z3.Bool(f"own0!{c.__name__}")) for c in family}
    M = eng.fresh("M")
    value = eng.fresh("value")
    problems = []
    slot_events = []

    def ob_attr(ex, base, name, node, st, ctx):
        o = base.o
        if isinstance(o, type) and name.startswith("__mashumaro_") and "variants" in name:
            return SD(M, ident=name)
        if isinstance(o, tuple) and o and o[0] == "builder" and name == "add_unpack_method":
            return Ob(("buildcall", o[1], o[2]))
        if isinstance(o, type) and o in family and name.startswith("__mashumaro_from_"):
            built = st.env.get("__built__", LL("set", []))
            has = z3.BoolVal(True) if p.base == "mixin" else z3.Or(*([own0[a] for a in o.__mro__ if a in own0] + [z3.BoolVal(any(_const_key(a) == _const_key(b.o) for b in built.items for a in o.__mro__))]))
            ctx.add_raise(z3.Not(has), Exc(Ob(AttributeError), [Ob(name)], origin=f"{o.__name__} has no unpacker yet"))
            return Ob(("unitref", o, name, tuple(_const_key(b.o) for b in built.items)))
        return None

    def call(ex, fnv, args, kw, node, st, ctx):
        if not isinstance(fnv, Ob):
            return None
        o = fnv.o
        if isinstance(o, tuple) and o and o[0] == "unitref":
            _, c, name, builtkeys = o
            slot_events.append((c, builtkeys, list(st.pc) + [ctx.guard_cond()] + [z3.Not(rc) for rc, _ in ctx.raises]))
            key = ("unit", id(c), name)
            ex.nonraising.discard(key)
            return ex.opaque_call(key, f"unit_{c.__name__}", list(args), list(kw), ctx, node)
        if getattr(o, "__name__", "") == "iter_all_subclasses" and len(args) == 1 and isinstance(args[0], Ob):
            return Ob(list(o(args[0].o)))  # the real helper, run on the concrete hierarchy
        if getattr(o, "__name__", "") == "get_class_that_defines_method" and len(args) == 2 and isinstance(args[1], Ob):
            c = args[1].o
            built = st.env.get("__built__", LL("set", []))
            if any(_const_key(b.o) == _const_key(c) for b in built.items):
                return Ob(c)
            return Ite(own0[c], Ob(c), Ob(NOTOWN))
        if isinstance(o, tuple) and o and o[0] == "buildcall":
            c = o[1]
            built = st.env.get("__built__", LL("set", []))
            st.env["__built__"] = LL("set", built.items + [Ob(c)])
            d = dict(o[2])
            problems.extend(_variant_builder_problems(c, d))
            return Ob(None)
        if o in (getattr(mod, "_tagger", None), getattr(mod, "_tagger_list", None)) and len(args) == 1 and isinstance(args[0], Ob):
            return Ob(o(args[0].o))  # the schema's own pure tagger function, run on the concrete class
        if isinstance(o, type) and o.__name__ == "CodeBuilder":
            return Ob(("builder", args[0].o if args and isinstance(args[0], Ob) else None, tuple((k, v) for k, v in kw)))
        return None

    def method_call(ex, recv, name, args, kw, node, st, ctx):
        if isinstance(recv, Ob) and isinstance(recv.o, tuple) and recv.o and recv.o[0] == "builder" and name == "add_unpack_method":
            _, c, bkw = recv.o
            built = st.env.get("__built__", LL("set", []))
            st.env["__built__"] = LL("set", built.items + [Ob(c)])
            d = dict(bkw)
            problems.extend(_variant_builder_problems(c, d))
            return Ob(None)
        if isinstance(recv, Tm) and name.startswith("__mashumaro_from_"):
            # a class taken from the registry: by INV one of the eligible classes
            out = None
            for c in reversed(elig):
                sub = ex.getattr(Ob(c), name, node, st, ctx.guarded(recv.t == eng.const(c)))
                val = ex.call(sub, args, kw, node, st, ctx.guarded(recv.t == eng.const(c)))
                out = val if out is None else Ite(recv.t == eng.const(c), val, out)
            return out if out is not None else Tm(eng.fresh("noclass"))
        return None

    def subscript(ex, base, idx, node, st, ctx):
        if isinstance(base, Tm) and z3.eq(base.t, value) and isinstance(idx, Ob):
            k = eng.const(idx.o)
            ctx.add_raise(z3.Not(eng.haskey(value, k)), Exc(Ob(KeyError), [idx], origin="value[field]"))
            return Tm(eng.dval(value, k))
        return None

    ex = pysym.Executor(eng, ns, hooks={"ob_attr": ob_attr, "call": call, "method_call": method_call, "subscript": subscript})
    ex.assume_hasattr = True
    params = [a.arg for a in fn.args.args]
    args = {}
    for a in params:
        if a == "cls":
            args[a] = Ob(mod.Holder if hasattr(mod, "Holder") and p.where == "annotated" else root)
        elif a == "value":
            args[a] = Tm(value)
        else:
            args[a] = Tm(eng.fresh(a.lstrip("_")))
    # preconditions: value is a mapping; INV(M); tags unique among eligible classes (checked concretely)
    pre = [eng.typeof(value) == eng.const(dict)]
    k = eng.fresh("k")
    inv_alts = []
    tagmap = {}
    for c in elig:
        for t in tags_of(c, p, mod):
            tagmap.setdefault(t, []).append(c)
            # INV: M[t] = c  =>  c eligible, tag(c) = t, and c owns its unpacker (it was built when registered)
            inv_alts.append(z3.And(k == eng.const(t), eng.dval(M, k) == eng.const(c), own0[c]))
    if any(len(v) > 1 for v in tagmap.values()):
        raise pysym.NotInSubset("schema point has duplicate tags")
    pre.append(z3.ForAll([k], z3.Implies(eng.haskey(M, k), z3.Or(*inv_alts) if inv_alts else z3.BoolVal(False)), patterns=[eng.haskey(M, k)]))
    paths = ex.run(fn, args, pc=pre)
    # A2/C05: a variant's own unpacker raises only the documented exceptions, never KeyError/AttributeError
    hyps = []
    for nm, f in list(eng.funcs.items()):
        if nm.startswith("exc!unit_"):
            et = f(value) if f.arity() == 1 else None
            if et is not None:
                for bad in (KeyError, AttributeError):
                    hyps.append(z3.Not(eng.issub(eng.typeof(et), eng.const(bad))))
    prover = pysym.Prover(eng, timeout_ms, extra_axioms=pre + hyps)
    # ---- specification
    disc = eng.dval(value, eng.const("kind"))
    verdicts = []

    def unit_call(c):
        key = ("unit", id(c), method_name)
        return Call(key, f"unit_{c.__name__}", [Tm(value)]), eng.raises_pred(key, f"unit_{c.__name__}", [Tm(value)], []), eng.exc_term(key, f"unit_{c.__name__}", [Tm(value)], [])

    import mashumaro.exceptions as mexc

    for i, path in enumerate(paths):
        goals = []
        if p.field:
            present = eng.haskey(value, eng.const("kind"))
            goals.append(z3.And(z3.Not(present), _is_raise(path, mexc.MissingDiscriminatorError)))
            matched = []
            for t, cs in tagmap.items():
                c = cs[0]
                cv, rz, et = unit_call(c)
                m = z3.And(present, disc == eng.const(t))
                matched.append(disc == eng.const(t))
                if path.kind == "return":
                    goals.append(z3.And(m, z3.Not(rz), eng.eq_struct(path.value, cv)))
                else:
                    e = path.value
                    goals.append(z3.And(m, rz, z3.BoolVal(e.cls is None) if e.cls is not None else (e.term == et)))
            goals.append(z3.And(present, z3.Not(z3.Or(*matched)) if matched else z3.BoolVal(True), _is_raise(path, mexc.SuitableVariantNotFoundError)))
        else:
            prev = []
            for c in elig:
                cv, rz, et = unit_call(c)
                if path.kind == "return":
                    goals.append(z3.And(*prev, z3.Not(rz), eng.eq_struct(path.value, cv)))
                prev.append(rz)
            goals.append(z3.And(*prev, _is_raise(path, mexc.SuitableVariantNotFoundError)))
        v = prover.prove(f"path{i}", path.pc, z3.Or(*goals) if goals else z3.BoolVal(False))
        v.path = path
        verdicts.append(v)
        # ensures INV: every store made on this path is (tag(c), c) for an eligible c
        sd = path.env.get("variants_map") if path.env else None
        if isinstance(sd, SD):
            for (uk, uv) in sd.updates:
                ok = isinstance(uk, Ob) and isinstance(uv, Ob) and uv.o in elig and uk.o in tags_of(uv.o, p, mod)
                if not ok:
                    problems.append(f"registry store {uk!r} -> {uv!r} breaks the invariant")
                else:
                    built = path.env.get("__built__", LL("set", []))
                    if not any(_const_key(b.o) == _const_key(uv.o) for b in built.items):
                        r = prover.prove("inv-own", path.pc, own0[uv.o])
                        if r.status != "proved":
                            problems.append(f"class {uv.o.__name__} is registered without owning an unpacker")
    # ---- slot obligation: the unpacker invoked for class c is c's own
    slot_bad = []
    for (c, builtkeys, pc) in slot_events:
        if _const_key(c) in builtkeys:
            continue
        r = prover.prove("slot", [x for x in pc if x is not None], own0[c])
        if r.status != "proved":
            # feasible at all?
            sat, _ = prover.sat([x for x in pc if x is not None] + [z3.Not(own0[c])])
            if sat != z3.unsat:
                slot_bad.append(c.__name__)
    return {"verdicts": verdicts, "paths": len(paths), "queries": prover.queries, "solver_s": prover.time_s,
            "problems": sorted(set(problems)), "slot_bad": sorted(set(slot_bad)), "eligible": [c.__name__ for c in elig], "tags": {t: cs[0].__name__ for t, cs in tagmap.items()}}


def _is_raise(path, cls):
    if path.kind != "raise":
        return z3.BoolVal(False)
    e = path.value
    return z3.BoolVal(e.cls is not None and e.cls.o is cls)


# ---------------------------------------------------------------------------------------------
# bounded history battery (stand-in / witness finder)
# ---------------------------------------------------------------------------------------------
def history_battery(p: DPoint, max_events=5):
    """concrete histories: interleavings of 'define class' and 'deserialize tag' events over the
    point's hierarchy; returns the first disagreement with the oracle, or None. Bounded: stated."""
    order = {"flat": [("K1", "Base"), ("K2", "Base")], "chain": [("K1", "Base"), ("K2", "K1"), ("K3", "K2")],
             "untagged_mid": [("K1", "Base"), ("K2", "K1"), ("K3", "Base")], "diamond": [("K1", "Base"), ("K2", "Base"), ("K3", "K1, K2")]}[p.shape]
    untagged = {"K1"} if p.shape == "untagged_mid" else set()
    n = len(order)
    tried = 0
    # a history: after defining the first j classes deserialize some tags, then define the rest, deserialize all
    for j in range(0, n + 1):
        # (tags of classes that are not defined yet are asked for as well: the documented error now, the class once it exists)
        for first_tags in itertools.chain([()], itertools.combinations(range(n), 1), itertools.combinations(range(n), 2)):
            tried += 1
            src = hierarchy_source(dataclasses.replace(p, shape="__none__")) if False else None
            res = _run_history(p, order, untagged, j, first_tags)
            if res is not None:
                res["tried"] = tried
                return res
    return None


def _base_source(p: DPoint):
    full = hierarchy_source(p)
    head, _, _ = full.partition("@dataclass\nclass K1")
    return head


def _run_history(p, order, untagged, j, first_tags):
    mix = "DataClassDictMixin" if p.base == "mixin" else ""
    head = _base_source(p)
    tail = ""
    if p.where == "annotated":
        tail = hierarchy_source(p).split("@dataclass\nclass Holder")[1]
        tail = "@dataclass\nclass Holder" + tail
    elif p.where == "codec":
        tail = "from mashumaro.codecs.basic import BasicDecoder\n" + hierarchy_source(p).split("from mashumaro.codecs.basic import BasicDecoder\n")[1]
    import sys

    modname = f"hist_{abs(hash((p.label(), j, first_tags))) % 10**8}"
    mod = pytypes.ModuleType(modname)
    mod.__dict__["__builtins__"] = __builtins__
    sys.modules[modname] = mod
    try:
        exec(compile(head, modname, "exec"), mod.__dict__)

        def define(i):
            name, parent = order[i]
            body = f"@dataclass\nclass {name}({parent}):\n" + ("" if name in untagged else f"    kind = '{name.lower()}'\n") + f"    f{i}: int = {i}\n"
            exec(compile(body, modname, "exec"), mod.__dict__)

        def decode(d):
            if p.where == "config":
                return mod.Base.from_dict(d)
            if p.where == "annotated":
                return mod.Holder.from_dict({"x": d}).x
            return mod.DEC.decode(d)

        # Holder / decoder exist before any variant (creation-before-definition clause)
        if tail:
            exec(compile(tail, modname, "exec"), mod.__dict__)
        for i in range(j):
            define(i)
        def tagof(i):
            name = order[i][0]
            if p.tagger == "fn":
                return "T_" + name
            if p.tagger == "fn_list":
                return "U_" + name
            return name.lower()

        def check(i, defined):
            name = order[i][0]
            if name in untagged and p.tagger == "none":
                return None
            d = {"kind": tagof(i)}
            try:
                r = decode(d)
                got = type(r).__name__
            except Exception as e:  # noqa
                got = f"raise {type(e).__name__}"
            is_elig = (p.subtypes and True)  # subclasses are eligible only with include_subtypes
            want = name if (i in defined and is_elig) else "raise SuitableVariantNotFoundError"
            if p.where == "annotated" and want.startswith("raise"):
                want = "raise InvalidFieldValue"
            if got != want:
                return {"confirmed": True, "why": f"after defining {[order[x][0] for x in sorted(defined)]}: input {d!r} -> {got}, expected {want}",
                        "input": repr(d), "history": f"define first {j}, decode tags {first_tags}, define rest, decode all"}
            return None

        if p.field:
            for i in first_tags:
                r = check(i, set(range(j)))
                if r:
                    return r
            for i in range(j, len(order)):
                define(i)
            for i in range(len(order)):
                r = check(i, set(range(len(order))))
                if r:
                    return r
            # unknown tag / missing tag
            for d, want in (({"kind": "nope"}, "SuitableVariantNotFoundError"), ({}, "MissingDiscriminatorError")):
                try:
                    decode(d)
                    got = "return"
                except Exception as e:  # noqa
                    got = type(e).__name__
                    cause = getattr(e, "__context__", None)
                if got != want and not (p.where == "annotated" and got == "InvalidFieldValue"):
                    return {"confirmed": True, "why": f"input {d!r} -> {got}, expected {want}", "input": repr(d)}
        return None
    finally:
        sys.modules.pop(modname, None)


# ---------------------------------------------------------------------------------------------
def c12_task(payload):
    pid, p = payload
    label = p.label()
    src = hierarchy_source(p)
    obs = []
    try:
        mod, recs = build.build_module(src)
    except Exception as e:
        return {"obligations": [dict(id=f"{pid}.G6{label}/builds", status="refuted", unit="class creation",
                                     detail=f"schema does not build: {type(e).__name__}: {e}",
                                     witness={"confirmed": True, "source": src, "why": f"{type(e).__name__}: {e}"})]}
    try:
        units_ = []
        for r in recs:
            for n in ast.parse(r.text).body:
                if isinstance(n, ast.FunctionDef) and n.name.startswith("__unpack_") and "variant" in r.text:
                    units_.append((r, n))
        if not units_:
            return {"obligations": [dict(id=f"{pid}.G6{label}/unit", status="error", detail="no discriminator function harvested")]}
        r, fn = units_[-1]
        oid = f"{pid}.G6{label}/contract"
        try:
            res = verify_discriminator(fn, dict(r.globals), mod, p)
            bad = [v for v in res["verdicts"] if v.status != "proved"]
            ob = dict(id=oid, unit=fn.name, paths=res["paths"], queries=res["queries"], solver_s=round(res["solver_s"], 4), backend="z3",
                      sample=r.text[:1500])
            if not bad and not res["problems"]:
                ob["status"] = "proved"
            else:
                ob["status"] = "refuted" if (res["problems"] or any(v.status == "refuted" for v in bad)) else "unknown"
                v0 = bad[0] if bad else None
                ob["detail"] = ("; ".join(res["problems"]) + (f" {len(bad)}/{len(res['verdicts'])} paths disagree with the contract; first: {v0.path.kind} {v0.path.value!r}" if v0 else ""))[:900]
                ob["witness"] = history_battery(p)
            obs.append(ob)
            sob = dict(id=f"{pid}.G6{label}/slot", unit=fn.name, status="proved" if not res["slot_bad"] else "refuted",
                       detail=("variant(s) " + ", ".join(res["slot_bad"]) + " may be deserialized by an inherited unpacker (the call is reachable while the class owns none)") if res["slot_bad"] else "")
            if res["slot_bad"]:
                sob["witness"] = slot_witness(p)
            obs.append(sob)
        except pysym.NotInSubset as e:
            w = history_battery(p)
            if w:
                obs.append(dict(id=oid, status="refuted", detail=f"outside the verified subset ({e}); bounded history battery found a failing history", witness=w, unit=r.text[:800]))
            else:
                obs.append(dict(id=oid, status="undecided", detail=f"outside the verified subset: {e}; bounded history battery (<= 5 events) found nothing", unit=r.text[:800]))
        return {"obligations": obs}
    finally:
        build.drop_module(mod)


def slot_witness(p: DPoint):
    """no-field mode, plain hierarchy of depth >= 2: the grandchild inherits the child's unpacker"""
    src = g4.PRELUDE + '''
from mashumaro.types import Discriminator
@dataclass
class Base:
    r: int = 0
@dataclass
class Child(Base):
    a: int = 1
@dataclass
class Grand(Child):
    a: str = "s"
@dataclass
class Holder(DataClassDictMixin):
    x: Annotated[Base, Discriminator(include_subtypes=True)]
'''
    try:
        m, _ = build.build_module(src)
        r = m.Holder.from_dict({"x": {"a": "x"}})
        got = type(r.x).__name__
    except Exception as e:  # noqa
        got = f"raise {type(e).__name__}"
    if got != "Grand":
        return {"confirmed": True, "why": f"Base <- Child(a:int) <- Grand(a:str), no-field discriminator: input {{'a': 'x'}} -> {got}, expected Grand", "input": "{'x': {'a': 'x'}}"}
    return None


def lattice(tier):
    pts = []
    for where in ("config", "annotated"):
        for field in (True, False):
            for sub, sup in ((True, False), (True, True), (False, True)):
                for base in ("mixin", "plain"):
                    for shape in ("flat", "chain", "untagged_mid", "diamond"):
                        for tagger in ("none", "fn", "fn_list"):
                            if tier == "quick":
                                if shape == "diamond" or (tagger != "none" and (shape != "chain" or base != "mixin")):
                                    continue
                                if base == "plain" and shape != "flat" and not (shape == "chain" and not field):
                                    continue
                            pts.append(DPoint(where, field, sub, sup, base, shape, tagger))
    seen, out = set(), []
    for p in pts:
        if p.label() not in seen and valid(p):
            seen.add(p.label())
            out.append(p)
    return out


PAIR_SRC = '''
from mashumaro.types import Discriminator
@dataclass
class Cat(DataClassDictMixin):
    kind: str = "a"
@dataclass
class Dog(DataClassDictMixin):
    kind: str = "b"
@dataclass
class Car(DataClassDictMixin):
    kind: str = "a"
@dataclass
class Bus(DataClassDictMixin):
    kind: str = "b"
@dataclass
class Van(DataClassDictMixin):
    kind: str = "c"
DD = Discriminator(field="kind", include_supertypes=True)
DD2 = Discriminator(field="kind", include_supertypes=True)
@dataclass
class Trip(DataClassDictMixin):
    pair: Tuple[Annotated[Union[Cat, Dog], DD], Annotated[Union[Car, Bus, Van], DD2]]
    pets: List[Annotated[Union[Cat, Dog], DD]] = field(default_factory=list)
    rides: Dict[str, Annotated[Union[Car, Bus, Van], DD]] = field(default_factory=dict)
from mashumaro.codecs.basic import BasicDecoder
DEC = BasicDecoder(Tuple[Annotated[Union[Cat, Dog], DD], Annotated[Union[Car, Bus, Van], DD]])
def _tg1(c):
    return "one_" + c.__name__
def _tg2(c):
    return "two_" + c.__name__
@dataclass
class TB1(DataClassDictMixin):
    pass
@dataclass
class TA1(TB1):
    x: int = 1
@dataclass
class TB2(DataClassDictMixin):
    pass
@dataclass
class TA2(TB2):
    y: int = 2
@dataclass
class Tagged(DataClassDictMixin):
    p: Annotated[TB1, Discriminator(field="t", include_subtypes=True, variant_tagger_fn=_tg1)]
    q: Annotated[TB2, Discriminator(field="t", include_subtypes=True, variant_tagger_fn=_tg2)]
'''


def registry_owners(recs):
    """registry expression -> {(function name, variants iterated)} over all generated discriminator functions"""
    owners = {}
    for r in recs:
        try:
            m = ast.parse(r.text)
        except SyntaxError:
            continue
        for fn in [n for n in ast.walk(m) if isinstance(n, ast.FunctionDef)]:
            regs = [ast.unparse(n.value) for n in ast.walk(fn) if isinstance(n, ast.Assign) and len(n.targets) == 1
                    and isinstance(n.targets[0], ast.Name) and n.targets[0].id == "variants_map"]
            if not regs:
                continue
            loops = [ast.unparse(n.iter) for n in ast.walk(fn) if isinstance(n, ast.For) and isinstance(n.target, ast.Name) and n.target.id == "variant"]
            for reg in set(regs):
                owners.setdefault(reg, set()).add((fn.name, tuple(sorted(loops))))
    return owners


def pair_task(payload):
    """two discriminated unions with equal Discriminator settings inside one field / one codec: each
    generated function must own its registry (the representation invariant of one function is about
    its own variant set; a shared registry lets the other function's writes break it)"""
    pid = payload[0]
    src = g4.PRELUDE + PAIR_SRC
    obs = []
    try:
        mod, recs = build.build_module(src)
    except Exception as e:
        return {"obligations": [dict(id=f"{pid}.G6[pair]/builds", status="refuted", detail=f"{type(e).__name__}: {e}", witness={"confirmed": True, "source": src, "why": str(e)})]}
    try:
        allrecs = [r for r in harvest.RECORDER.records if recs and r.seq >= recs[0].seq]
        owners = registry_owners(allrecs)
        shared = {reg: o for reg, o in owners.items() if len({v for (_, v) in o}) > 1}
        w = None
        # replay (also the bounded complement of the ownership obligation)
        probs = []
        try:
            t = mod.Trip.from_dict({"pair": [{"kind": "b"}, {"kind": "b"}], "pets": [{"kind": "a"}], "rides": {"r": {"kind": "a"}}})
            want = (mod.Dog, mod.Bus, mod.Cat, mod.Car)
            got = (type(t.pair[0]), type(t.pair[1]), type(t.pets[0]), type(t.rides["r"]))
            if got != want:
                probs.append(f"Trip.from_dict: classes {[c.__name__ for c in got]}, expected {[c.__name__ for c in want]}")
            d = mod.DEC.decode([{"kind": "a"}, {"kind": "c"}])
            if (type(d[0]), type(d[1])) != (mod.Cat, mod.Van):
                probs.append(f"decoder: classes {[type(x).__name__ for x in d]}, expected ['Cat', 'Van']")
            try:
                mod.Trip.from_dict({"pair": [{"kind": "c"}, {"kind": "c"}]})
                probs.append("tag 'c' accepted at a position whose union has no such variant")
            except Exception:
                pass
        except Exception as e:  # noqa
            probs.append(f"{type(e).__name__}: {str(e)[:200]}")
        if probs:
            w = {"confirmed": True, "source": src, "input": "{'pair': [{'kind': 'b'}, {'kind': 'b'}], ...}", "why": "; ".join(probs)}
        obs.append(dict(id=f"{pid}.G6[pair]/registry_owned", status="proved" if not shared else "refuted", unit=f"{len(owners)} registries of the generated discriminator functions",
                        detail="" if not shared else "one variants registry is written by functions of different unions: " + "; ".join(f"{reg} <- {sorted(n for n, _ in o)}" for reg, o in shared.items())[:600],
                        witness=w if shared else None))
        if len(owners) < 4:
            obs.append(dict(id=f"{pid}.G6[pair]/registry_owned/cover", status="refuted" if not shared else "proved", detail=f"only {len(owners)} registries found for 5 discriminated positions (vacuity guard)"))
        # each discriminator function tags variants with its own Discriminator's variant_tagger_fn
        tprobs = []
        want = {"p": mod._tg1, "q": mod._tg2}
        seen_t = 0
        for r in allrecs:
            try:
                m_ = ast.parse(r.text)
            except SyntaxError:
                continue
            for fn_ in [n for n in m_.body if isinstance(n, ast.FunctionDef) and n.name.startswith("__unpack_Tagged_")]:
                fld = fn_.name[len("__unpack_Tagged_"):].split("__")[0]
                for c_ in ast.walk(fn_):
                    if isinstance(c_, ast.Call) and isinstance(c_.func, ast.Name) and len(c_.args) == 1 and isinstance(c_.args[0], ast.Name) and c_.args[0].id == "variant" and not c_.keywords:
                        seen_t += 1
                        bound = (r.globals or {}).get(c_.func.id)
                        if bound is not want.get(fld):
                            tprobs.append(f"{fn_.name}: tags variants of field {fld!r} with {getattr(bound, '__name__', bound)!r}, its Discriminator declares {want[fld].__name__!r}")
        tw = None
        try:
            tv = mod.Tagged.from_dict({"p": {"t": "one_TA1"}, "q": {"t": "two_TA2"}})
            if (type(tv.p), type(tv.q)) != (mod.TA1, mod.TA2):
                tw = f"Tagged.from_dict gives {tv!r}"
        except Exception as e:  # noqa
            tw = f"Tagged.from_dict({{'p': {{'t': 'one_TA1'}}, 'q': {{'t': 'two_TA2'}}}}) raised {type(e).__name__}: {str(e)[:160]}"
        obs.append(dict(id=f"{pid}.G6[pair]/own_tagger", status="proved" if not tprobs and seen_t >= 2 else "refuted", unit=f"{seen_t} tagger calls in the functions of Tagged.p / Tagged.q",
                        detail="; ".join(sorted(set(tprobs)))[:500] or ("" if seen_t >= 2 else "no tagger call found (vacuity guard)"),
                        witness=({"confirmed": True, "source": src, "input": "{'p': {'t': 'one_TA1'}, 'q': {'t': 'two_TA2'}}", "why": tw} if tw else None)))
        if tw:
            probs.append(tw)
        obs.append(dict(id=f"{pid}.H[pair]/bounded_sample", status="proved" if not probs else "refuted", unit="Trip.from_dict / DEC.decode on one history (bounded)", bounded=True,
                        detail="; ".join(probs), witness=w))
        return {"obligations": obs}
    finally:
        build.drop_module(mod)


# ---------------------------------------------------------------------------------------------
# A2 discharged for mashumaro's own exceptions: the dispatcher's handlers around the variant call
# (`except (KeyError, AttributeError)`) must not absorb an error a callee unit raises by contract -
# in a two-level hierarchy the callee is itself a discriminator function.
# ---------------------------------------------------------------------------------------------
A2_SRC = {
    "MissingDiscriminatorError": ('''
@dataclass
class Base(DataClassDictMixin):
    class Config(BaseConfig):
        discriminator = Discriminator(field="kind", include_subtypes=True)
@dataclass
class Mid(Base):
    kind = "mid"
    class Config(BaseConfig):
        discriminator = Discriminator(field="action", include_subtypes=True)
@dataclass
class Leaf(Mid):
    action = "leaf"
    x: int = 0
''', "Base.from_dict({'kind': 'mid'})"),
    "MissingField": ('''
@dataclass
class Base(DataClassDictMixin):
    class Config(BaseConfig):
        discriminator = Discriminator(field="kind", include_subtypes=True)
@dataclass
class Leaf(Base):
    kind = "leaf"
    x: int
''', "Base.from_dict({'kind': 'leaf'})"),
}


def handler_names(fn):
    """exception class names caught by handlers whose try body returns a variant call (field mode)"""
    out = set()
    for n in ast.walk(fn):
        if isinstance(n, ast.Try) and any(isinstance(b, ast.Return) for b in n.body):
            for h in n.handlers:
                t = h.type
                for e in (t.elts if isinstance(t, ast.Tuple) else [t]):
                    if isinstance(e, ast.Name):
                        out.add(e.id)
    return out


def a2_task(payload):
    (pid,) = payload
    import builtins
    import os

    import mashumaro.exceptions as mexc

    p = DPoint()
    src = hierarchy_source(p)
    mod, recs = build.build_module(src)
    try:
        hs = set()
        for r in recs:
            for n in ast.parse(r.text).body:
                if isinstance(n, ast.FunctionDef) and n.name.startswith("__unpack_") and "variant" in r.text:
                    hs |= handler_names(n)
    finally:
        build.drop_module(mod)
    hs.discard("Exception")
    handlers = [getattr(builtins, h) for h in sorted(hs) if isinstance(getattr(builtins, h, None), type)]
    if not handlers:
        return {"obligations": [dict(id=f"{pid}.A2/handlers", status="error", detail="no handler around a variant call found in the field-mode discriminator function")]}
    # the exception classes of mashumaro/exceptions.py, read from its source
    tree = ast.parse(open(os.path.join(os.path.dirname(mexc.__file__), "exceptions.py")).read())
    obs = []
    for n in tree.body:
        if not isinstance(n, ast.ClassDef):
            continue
        E = getattr(mexc, n.name, None)
        if not (isinstance(E, type) and issubclass(E, BaseException)):
            continue
        caught = [h.__name__ for h in handlers if issubclass(E, h)]
        ob = dict(id=f"{pid}.A2/{n.name}", unit=f"class {n.name}({', '.join(ast.unparse(b) for b in n.bases)})  vs  except ({', '.join(h.__name__ for h in handlers)}) around the variant call",
                  status="proved" if not caught else "refuted", backend="enumeration",
                  detail="" if not caught else f"{n.name} is a {caught[0]}: raised by the chosen variant's own unpacker it is absorbed by the dispatcher's handler and re-reported as an unknown tag")
        if caught:
            wsrc = A2_SRC.get(n.name)
            w = None
            if wsrc:
                full = g4.PRELUDE + "from mashumaro.types import Discriminator\n" + wsrc[0]
                try:
                    m2, _ = build.build_module(full)
                    try:
                        try:
                            got = repr(eval(wsrc[1], vars(m2)))
                        except Exception as e:  # noqa
                            got = type(e).__name__
                        if got != n.name:
                            w = {"confirmed": True, "source": full, "input": wsrc[1], "got": got, "expected": f"raises {n.name}", "why": f"{wsrc[1]} gives {got}, expected {n.name}"}
                    finally:
                        build.drop_module(m2)
                except Exception:  # noqa
                    w = None
            ob["witness"] = w
        obs.append(ob)
    return {"obligations": obs}


# ---------------------------------------------------------------------------------------------
# one registry per variant method: INV says "M[t] = c  =>  c owns the unit this function calls on it".  Two
# discriminator functions that call DIFFERENT units (other format) on the registered classes must not share M,
# otherwise a class registered by the one is taken from M by the other without ever owning that unit.
# ---------------------------------------------------------------------------------------------
FMT_SRC = '''
from mashumaro.types import Discriminator
from {mod} import {mix} as MIXF
@dataclass
class Base(MIXF):
    class Config(BaseConfig):
        discriminator = Discriminator(field="kind", include_subtypes=True)
@dataclass
class S1(Base):
    kind: str = "s1"
    a: int = 0
@dataclass
class Outer(MIXF):
    b: Base
'''
FMT_LATE = '''
@dataclass
class S2(S1):
    kind: str = "s2"
    b: int = 0
'''
FMT_MIXINS = {"orjson": ("mashumaro.mixins.orjson", "DataClassORJSONMixin", "from_json", "to_jsonb"),
              "msgpack": ("mashumaro.mixins.msgpack", "DataClassMessagePackMixin", "from_msgpack", "to_msgpack"),
              "toml": ("mashumaro.mixins.toml", "DataClassTOMLMixin", "from_toml", "to_toml")}


def format_registry_task(payload):
    pid, fmt = payload
    import re as _re

    modname, mix, from_m, to_m = FMT_MIXINS[fmt]
    src = g4.PRELUDE + FMT_SRC.format(mod=modname, mix=mix)
    mod, recs0 = build.build_module(src)
    try:
        s1 = mod.S1("s1", 5)
        import msgpack as _mp
        import orjson as _oj
        import tomli_w as _tw

        raw = {"orjson": _oj.dumps, "msgpack": _mp.packb, "toml": _tw.dumps}[fmt]
        mod.Base.from_dict(s1.to_dict())
        getattr(mod.Base, from_m)(getattr(s1, to_m)())
        # the base used as a field of another class of the format: the nested (dict-form) unit of the format is built too
        # (the document is written by hand: Outer(s1).to_<format>() is the recorded subclass-instance finding)
        getattr(mod.Outer, from_m)(raw({"b": {"kind": "s1", "a": 5}}))
        recs = [r for r in harvest.RECORDER.records if recs0 and r.seq >= recs0[0].seq]
        uses = {}
        nfn = 0
        for r in recs:
            if r.builder is None or r.builder.cls is not mod.Base:
                continue
            for fn in [n for n in ast.parse(r.text).body if isinstance(n, ast.FunctionDef) and n.name.startswith("__unpack_")]:
                maps = {n.attr for n in ast.walk(fn) if isinstance(n, ast.Attribute) and _re.fullmatch(r"__mashumaro_\w*variants\w*__", n.attr)}
                meths = {c.func.attr for c in ast.walk(fn) if isinstance(c, ast.Call) and isinstance(c.func, ast.Attribute) and c.func.attr.startswith("__mashumaro_from_")}
                if maps and meths:
                    nfn += 1
                    for m in maps:
                        uses.setdefault(m, set()).update(meths)
        probs = [f"registry Base.{m} is shared by discriminator functions that call {sorted(ms)} on the registered classes" for m, ms in uses.items() if len(ms) > 1]
        # native history (bounded): a class defined later and first seen through the dict entry point, then decoded through the format
        hist = []
        try:
            exec(compile(FMT_LATE, "<late>", "exec"), vars(mod))
            s2 = mod.S2("s2", 5, 6)
            back = mod.Base.from_dict(s2.to_dict())
            if back != s2:
                hist.append(f"Base.from_dict -> {back!r}")
            back = getattr(mod.Base, from_m)(getattr(s2, to_m)())
            if back != s2 or type(back) is not mod.S2:
                hist.append(f"after Base.from_dict registered the later class S2, Base.{from_m}(S2 document) -> {back!r}, expected {s2!r}")
            try:
                back = getattr(mod.Outer, from_m)(raw({"b": {"kind": "s2", "a": 5, "b": 6}}))
                if back != mod.Outer(s2) or type(back.b) is not mod.S2:
                    hist.append(f"after Base.from_dict registered S2, Outer.{from_m}(document holding an S2) -> {back!r}")
            except Exception as e:  # noqa
                hist.append(f"after Base.from_dict registered S2, Outer.{from_m}(document holding an S2) raised {type(e).__name__}: {str(e)[:120]}")
        except Exception as e:  # noqa
            hist.append(f"history raised {type(e).__name__}: {str(e)[:200]}")
        w = {"confirmed": True, "source": src + FMT_LATE, "input": f"Base.from_dict(S1 doc); Base.{from_m}(S1 doc); define S2(S1); Base.from_dict(S2 doc); Base.{from_m}(S2 doc)", "why": hist[0]} if hist else None
        obs = [dict(id=f"{pid}.Rfmt[{fmt}]/registry_per_unit", status=("proved" if not probs else "refuted") if nfn else "error", unit=f"{nfn} discriminator functions of Base ({', '.join(sorted(uses))})",
                    detail="; ".join(probs)[:600] if nfn else "no discriminator function harvested", witness=w if probs else None),
               dict(id=f"{pid}.Hfmt[{fmt}]/cross_format_history", status="proved" if not hist else "refuted", unit="define-later / dict-first / format-second history (bounded)", bounded=True,
                    detail="; ".join(hist)[:500], witness=w)]
        return {"obligations": obs}
    finally:
        build.drop_module(mod)


def history_task(payload):
    pid, p = payload
    w = history_battery(p)
    return {"obligations": [dict(id=f"{pid}.H{p.label()}/bounded_histories", status="proved" if w is None else "refuted", unit="bounded history battery",
                                 detail="" if w is None else w["why"], witness=w, bounded=True)]}


def check(pid, tier):
    t0 = time.time()
    pts = lattice(tier)
    res = runner.run_pool(c12_task, [(pid, p) for p in pts], chunks=1)
    obs, crashes = [], []
    for r in res:
        if "crash" in r:
            crashes.append(r["crash"] + " @ " + r["payload"] + "\n" + r["trace"][-700:])
        else:
            obs.extend(r["obligations"])
    for r in runner.run_pool(pair_task, [(pid,)], chunks=1) + runner.run_pool(a2_task, [(pid,)], chunks=1) + runner.run_pool(format_registry_task, [(pid, f) for f in FMT_MIXINS], chunks=1):
        if "crash" in r:
            crashes.append(r["crash"] + " @ " + r["payload"] + "\n" + r["trace"][-700:])
        else:
            obs.extend(r["obligations"])
    # discriminated bases that are generic specialisations, local classes, or live in another module than the holder:
    # closedness of the generated discriminator functions + the decoded classes (families shared with C17)
    from . import c17

    fam_payloads = []
    for fam in ("generic_discriminated", "local_discriminated", "other_module_discriminator"):
        fam_payloads += [(pid, fam, t_, "one") for t_ in c17.AWKWARD[fam][1]]
    for r in runner.run_pool(c17.awkward_task, fam_payloads, chunks=1):
        if "crash" in r:
            crashes.append(r["crash"] + " @ " + r["payload"] + "\n" + r["trace"][-700:])
        else:
            obs.extend(r["obligations"])
    # bounded stand-in for the codec path (holder registry) and as a cross-check of the contracts
    hpts = [dataclasses.replace(p, where=w) for p in pts if p.field and p.tagger == "none" for w in ("codec",) if p.where == "annotated"]
    hpts += [p for p in pts if p.field][:: (4 if tier == "quick" else 1)]
    if tier == "quick":
        hpts = hpts[:12]
    hres = runner.run_pool(history_task, [(pid, p) for p in hpts], chunks=2)
    bounded = []
    nb = 0
    for r in hres:
        if "crash" in r:
            crashes.append(r["crash"] + " @ " + r["payload"] + "\n" + r["trace"][-700:])
            continue
        for o in r["obligations"]:
            nb += 1
            if o["status"] != "proved":
                obs.append(o)  # a failing concrete history is a violation with a replayed witness
    bounded.append({"what": "concrete define/deserialize histories (<= 5 events per history) incl. the codec (holder-registry) path", "points": len(hpts), "histories_sets_run": nb,
                    "note": "bounded stand-in: never counted as proved"})
    return runner.finish(
        pid, tier, obs, t0,
        technique="contract + representation invariant on the real generated discriminator function: symbolic execution (pysym, z3) for an arbitrary mapping and an arbitrary registry state satisfying INV, loop over the concrete hierarchy unrolled; slot obligation (own unpacker) per variant call; history quantifier by invariant; bounded concrete histories as stand-in/witness finder",
        units=len(pts),
        extra_cov={"points": len(pts), "explanation": "Config / Annotated-field discriminators x field / no-field x include_subtypes/supertypes x mixin/plain variants x hierarchy shapes (flat, chain, untagged middle class, diamond) x variant_tagger_fn (scalar, list)"},
        trusted={"A2/C05: user code reached from a variant's unpacker (hooks, strategies) does not raise KeyError/AttributeError; for mashumaro's own exception classes this is the discharged obligation A2/<class>", "tags are unique among eligible classes (checked concretely per point)",
                 "registry keys are compared by term equality", "iter_all_subclasses is the real helper run on the concrete hierarchy of the point"},
        functions=["DiscriminatedUnionUnpackerBuilder._add_body / _add_build_variant_unpacker / _add_register_variant_tags (through the generated function)", "helpers.iter_all_subclasses (executed)"],
        bounded=bounded,
        crashes=crashes,
    )

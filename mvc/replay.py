"""re-execute a recorded counterexample against the real code of /repo's working tree"""
import ast
import json


def main(pid, path):
    rec = json.load(open(path))
    rp = rec.get("replay") or {}
    kind = rp.get("kind")
    w = rec.get("witness") or {}
    print(f"obligation: {rec.get('obligation')}")
    print(f"verifier:   {rec.get('status')} {rec.get('detail')}")
    if kind == "g1":
        from . import build, g1

        pt = rp["point"]
        point = g1.Point(tuple(g1.F(**f) for f in pt.pop("fields")), **pt)
        mod, _ = build.build_module(g1.class_source(point))
        first = None
        if w and "input" in w:
            first = w["input"]
            if isinstance(first, str):
                try:
                    first = ast.literal_eval(first)
                except Exception:
                    pass
        r = g1.find_witness(mod.C, point, first=first, entry="mixin" if point.base == "mixin" else "codec")
        if r is None:
            print("replay: no disagreement between the real code and FROM_SPEC on the recorded input or the battery")
            return 0
        print(f"input:    {r['input']!r}\nexpected: {r['expected']}\nactual:   {r['actual']}\n{r['why']}")
        return 1
    handler = REPLAYERS.get(kind)
    if handler is not None:
        return handler(rec)
    ob = rec.get("obligation") or ""
    if ".S18[" in ob or ".S19[" in ob:
        from . import s18optional

        n, r = (s18optional.native_witness if ".S18[" in ob else s18optional.native_witness_opt)()
        if r is None:
            print(f"recorded input: {w.get('input')}\nreplay: the real function agrees with its specification on all {n} concrete calls of the battery")
            return 0
        print(f"input:    {r['input']}\n{r['why']}")
        return 1
    if w.get("source"):
        return _generic(w)
    print("no executable replay recorded for this obligation (no-failing-input-found); verifier output:")
    print(json.dumps(rec.get("verifier_output"), indent=1))
    return 0


REPLAYERS = {}


def _generic(w):
    """witnesses of the enumerated / bounded obligations: a schema source plus (where it is an expression) the call that failed"""
    import datetime

    from . import build

    print("schema source:")
    print("    " + w["source"].strip().replace("\n", "\n    ")[-1500:])
    try:
        mod, _ = build.build_module(w["source"])
    except Exception as e:  # noqa
        print(f"replay: building the schema raises {type(e).__name__}: {e}")
        return 1
    try:
        expr = w.get("input")
        print(f"recorded:  {w.get('why')}")
        if not isinstance(expr, str):
            print("replay: the schema builds; no call expression recorded")
            return 0
        ns = dict(vars(mod))
        ns.setdefault("date", datetime.date)
        try:
            code = compile(expr, "<replay>", "eval")
        except SyntaxError:
            print(f"replay: the recorded input is a description, not an expression: {expr}")
            return 0
        try:
            out = repr(eval(code, ns))
        except NameError as e:
            print(f"replay: the recorded input is not self-contained ({e}): {expr}")
            return 0
        except Exception as e:  # noqa
            out = f"{type(e).__name__}: {e}"
        print(f"call:      {expr}\nresult:    {out[:400]}")
        rec = str(w.get("got") or "") + " " + str(w.get("why") or "")
        same = out[:80] in rec or (w.get("expected") is not None and out != str(w.get("expected")))
        print("replay: reproduced on this tree" if same else "replay: not reproduced on this tree")
        return 1 if same else 0
    finally:
        build.drop_module(mod)

"""re-execute a recorded counterexample against the real code of /repo's working tree"""
import ast
import json


def main(pid, path):
    rec = json.load(open(path))
    rp = rec.get("replay") or {}
    kind = rp.get("kind")
    w = rec.get("witness") or {}
    print(f"obligation: {rec.get('obligation')}")
    print(f"verifier:   {rec.get('status')} {rec.get('detail')}")
    if kind == "g1":
        from . import build, g1

        pt = rp["point"]
        point = g1.Point(tuple(g1.F(**f) for f in pt.pop("fields")), **pt)
        mod, _ = build.build_module(g1.class_source(point))
        first = None
        if w and "input" in w:
            first = w["input"]
            if isinstance(first, str):
                try:
                    first = ast.literal_eval(first)
                except Exception:
                    pass
        r = g1.find_witness(mod.C, point, first=first, entry="mixin" if point.base == "mixin" else "codec")
        if r is None:
            print("replay: no disagreement between the real code and FROM_SPEC on the recorded input or the battery")
            return 0
        print(f"input:    {r['input']!r}\nexpected: {r['expected']}\nactual:   {r['actual']}\n{r['why']}")
        return 1
    handler = REPLAYERS.get(kind)
    if handler is not None:
        return handler(rec)
    print("no executable replay recorded for this obligation (no-failing-input-found); verifier output:")
    print(json.dumps(rec.get("verifier_output"), indent=1))
    return 0


REPLAYERS = {}

"""property -> check implementation"""
import os
import sys
import time

from . import runner


def check_g1(pid, tier):
    from . import g1

    t0 = time.time()
    pts = g1.LATTICES[pid](tier)
    results = runner.run_pool(g1.g1_task, [(pid, p) for p in pts], chunks=4)
    obs, crashes, trusted = [], [], set()
    for r in results:
        if "crash" in r:
            crashes.append(r["crash"] + " @ " + r["payload"] + "\n" + r["trace"][-600:])
            continue
        obs.extend(r["obligations"])
        trusted.update(r.get("trusted", ()))
    fns = []
    if pid in ("C07", "C09", "C05"):
        try:
            from . import s10fields

            o10, c10_ = s10fields.obligations(pid, tier)
            obs += o10
            crashes += c10_
            fns.append("builder.py:CodeBuilder.dataclass_fields / get_field_default / metadatas (S10: the builder's view of the fields = dataclasses' own, over a lattice of 3-level and diamond hierarchies x declaration forms)")
        except Exception as e:  # noqa
            import traceback

            crashes.append(f"S10: {type(e).__name__}: {e}\n" + traceback.format_exc()[-500:])
    if pid == "C05":
        # error paths must be executable: a NameError raised while building MissingField / InvalidFieldValue escapes
        # from_dict as an undocumented exception - closedness of every generated function of the override families
        try:
            from . import c17

            names = [n for n in c17.CUSTOM if n.split("/")[0] in ("list", "dict", "blist", "bdict", "btuple", "plain", "optional")]
            for r in runner.run_pool(c17.custom_task, [(pid, n) for n in names], chunks=4):
                if "crash" in r:
                    crashes.append(r["crash"] + " @ " + r["payload"] + "\n" + r["trace"][-500:])
                else:
                    obs.extend(r["obligations"])
            fns.append("<generated> error paths of from_dict under whole-field overrides (closedness: every name in MissingField/InvalidFieldValue arguments resolves)")
        except Exception as e:  # noqa
            import traceback

            crashes.append(f"closedness: {type(e).__name__}: {e}\n" + traceback.format_exc()[-500:])
    if pid == "C09":
        try:
            from . import s3resolve

            obs += s3resolve.verify_field_alias(pid)
            from . import s12config

            obs += s12config.alias_obligations(pid)
            fns.append("builder.py:CodeBuilder.__get_field_alias (S8: source precedence + loop-body triple on the real AST)")
            trusted.add("S8 loop rule: the accumulator after the loop is None or the name of an Alias among the iterated annotations (invariant proved on the body)")
        except Exception as e:  # noqa
            import traceback

            crashes.append(f"S8: {type(e).__name__}: {e}\n" + traceback.format_exc()[-500:])
    return runner.finish(
        pid, tier, obs, t0,
        technique="VCs from the harvested generated from_dict (pysym symbolic execution, all inputs d) against FROM_SPEC/KEYMODEL, z3; exhaustive schema lattice",
        units=len(pts),
        extra_cov={"lattice_points": len(pts), "exhaustive": True,
                   "explanation": "one from_spec obligation (all paths x all inputs) and one cover obligation per schema point"},
        trusted=trusted | {"hole conversions are uninterpreted (H._deserialize, int): the induction hypothesis of DESIGN.md 1.3",
                           "inspect.signature(cls).bind maps constructor arguments to parameters"},
        functions=["<generated> __mashumaro_from_dict__ (CodeBuilder._add_unpack_method_lines, FieldUnpackerCodeBlockBuilder.build)"] + fns,
        crashes=crashes,
    )


def check_g2(pid, tier):
    from . import g2, s10fields

    t0 = time.time()
    pts = g2.lattice(tier)
    results = runner.run_pool(g2.g2_task, [(pid, p) for p in pts], chunks=2)
    o10, c10_ = s10fields.obligations(pid, tier)
    results = list(results) + [{"obligations": o10}] + [{"crash": c, "payload": "S10", "trace": ""} for c in c10_]
    # keyword flags are threaded through every helper call, also through the self-call of a recursive union helper
    from . import c19

    results += runner.run_pool(c19.recunion_task, [(pid, "dict", o) for o in (("TO_DICT_ADD_OMIT_NONE_FLAG",), ("TO_DICT_ADD_BY_ALIAS_FLAG", "TO_DICT_ADD_OMIT_NONE_FLAG"),
                                                                              ("ADD_DIALECT_SUPPORT", "TO_DICT_ADD_OMIT_NONE_FLAG", "TO_DICT_ADD_BY_ALIAS_FLAG"))], chunks=1)
    # union members that opted in to different flags: each member is packed by its own call
    results += runner.run_pool(c19.member_flags_task, [(pid, "dict", o) for o in (("TO_DICT_ADD_OMIT_NONE_FLAG",), ("TO_DICT_ADD_BY_ALIAS_FLAG",),
                                                                                  ("TO_DICT_ADD_OMIT_NONE_FLAG", "TO_DICT_ADD_BY_ALIAS_FLAG"))], chunks=1)
    obs, crashes, trusted = [], [], set()
    for r in results:
        if "crash" in r:
            crashes.append(r["crash"] + " @ " + r["payload"] + "\n" + r["trace"][-600:])
            continue
        obs.extend(r["obligations"])
        trusted.update(r.get("trusted", ()))
    # S12: the options are read through get_config(): it sees every option the class's Config declares (plain Configs, plain parents)
    from . import s12config

    o_, c_ = s12config.obligations(pid)
    obs += o_
    crashes += c_
    # S14: the literal spliced into the omit_default guard compares like the default itself, for every kind of default
    try:
        obs += s12config.default_literal_obligations(pid)
    except Exception as e:  # noqa
        import traceback

        crashes.append(f"S14: {type(e).__name__}: {e}\n{traceback.format_exc()[-500:]}")
    return runner.finish(
        pid, tier, obs, t0,
        technique="VCs from the harvested generated to_dict (pysym, all instances and keyword flags symbolic) against PROJECT(options, plain), z3; exhaustive option lattice",
        units=len(pts),
        extra_cov={"lattice_points": len(pts), "exhaustive": True,
                   "explanation": "one obligation per (schema/option point, compiled unit, set of passed flag arguments): all paths x all instances"},
        trusted=trusted | {"hole serialisation is uninterpreted and does not raise on conforming values (induction hypothesis)",
                           "== is transitive for default objects (factory defaults are called once at build time)"},
        functions=["<generated> __mashumaro_to_dict__ (CodeBuilder._add_pack_method_lines, _pack_method_set_value, get_pack_method_default_flag_values, get_pack_method_flags)"],
        crashes=crashes,
    )


def check_g4(pid, tier):
    from . import g4

    t0 = time.time()
    types = g4.type_lattice(tier)
    direction = {"C02": "enc", "C03": "dec"}[pid]
    payloads = [(pid, t, "default", direction) for t in types]
    if pid == "C02":
        for dn in ("nocopy_list", "nocopy_dict", "nocopy_both"):
            payloads += [(pid, t, dn, "enc") for t in types if any(k in t for k in ("List", "list", "Dict", "dict", "Sequence", "Mapping"))][: (40 if tier == "quick" else 100000)]
    results = runner.run_pool(g4.g4_task, payloads, chunks=2)
    if pid == "C02":
        # format-dialect clause: orjson / msgpack / TOML leave exactly their declared natives unconverted
        # (eager, lazy and postponed compilation must agree)
        from . import g7

        fpts = [g7.FPoint(m, mode, False, fs) for m in ("orjson", "msgpack", "toml") for mode in ("eager", "lazy", "postponed") for fs in ("native", "native2")]
        fpts += [g7.FPoint(m, mode, False, "selfref") for m in ("orjson", "msgpack", "toml") for mode in ("eager", "lazy")]
        results += runner.run_pool(g7.g7_task, [(pid, p) for p in fpts], chunks=1)
    if pid in ("C02", "C03"):
        # specialised generic classes (units keyed by their type arguments), also a generic class inside a generic class
        from . import g7

        gpts = [g7.FPoint(m, "eager", False, fs) for m in ("dict", "msgpack") for fs in ("generic", "generic2")]
        results += runner.run_pool(g7.g7_task, [(pid, p) for p in gpts], chunks=1)
    obs, crashes, trusted = _collect(results)
    if pid in ("C02", "C03"):
        try:
            from . import c17 as _c17

            for r in runner.run_pool(_c17.codec_same_name_task, [(pid,)], chunks=1):
                if "crash" in r:
                    crashes.append(r["crash"] + " @ " + r["payload"] + "\n" + r["trace"][-500:])
                else:
                    obs.extend(r["obligations"])
        except Exception as e:  # noqa
            import traceback

            crashes.append(f"codec same-name: {type(e).__name__}: {e}\n{traceback.format_exc()[-600:]}")
    if pid == "C03":
        from . import c11 as _c11

        for r in runner.run_pool(_c11.literal_return_task, [(pid,)], chunks=1):
            if "crash" in r:
                crashes.append(r["crash"] + " @ " + r["payload"] + "\n" + r["trace"][-500:])
            else:
                obs.extend(r["obligations"])
    if pid == "C03":
        try:
            from . import c17 as _c17e

            for r in runner.run_pool(_c17e.engine_task, [(pid, T_, MD_) for (T_, MD_) in _c17e.ENGINE_POINTS], chunks=1):
                if "crash" in r:
                    crashes.append(r["crash"] + " @ " + r["payload"] + "\n" + r["trace"][-500:])
                else:
                    obs.extend(r["obligations"])
        except Exception as e:  # noqa
            import traceback

            crashes.append(f"engine points: {type(e).__name__}: {e}\n{traceback.format_exc()[-600:]}")
    if pid == "C03":
        # "the very class named in the annotation, never a look-alike": identity obligations on same-named classes
        # of different modules and on a generic dataclass specialised with a local class
        try:
            from . import c17

            pl = []
            for fam in ("same_name_other_modules", "generic_with_local_arg"):
                _, tys, two = c17.AWKWARD[fam]
                pl += [(pid, fam, t, "one") for t in tys]
                if two:
                    pl.append((pid, fam, "+".join(two), "two"))
            for r in runner.run_pool(c17.awkward_task, pl, chunks=1):
                if "crash" in r:
                    crashes.append(r["crash"] + " @ " + r["payload"] + "\n" + r["trace"][-500:])
                else:
                    obs.extend(r["obligations"])
        except Exception as e:  # noqa
            import traceback

            crashes.append(f"identity families: {type(e).__name__}: {e}\n{traceback.format_exc()[-600:]}")
        try:
            from . import s6key

            obs += s6key.all_obligations(pid)
            trusted.add("A-names: type_name with default flags is injective on importable classes; md5 does not collide (S6)")
        except Exception as e:  # noqa
            import traceback

            crashes.append(f"S6: {type(e).__name__}: {e}\n{traceback.format_exc()[-600:]}")
    what = "REF_ENC" if pid == "C02" else "REF_DEC"
    return runner.finish(
        pid, tier, obs, t0,
        technique=f"VCs from the harvested generated code of `x: T` (pysym) against {what}(T), an independent reference reading of the type hints; z3; type lattice = leaf table + constructor templates over hole types + depth-2/3 compositions",
        units=len(payloads),
        extra_cov={"types": len(types), "exhaustive": False,
                   "explanation": "one obligation per type expression (and dialect): all paths x all inputs, value equality and raise-iff against the reference"},
        trusted=trusted | {"leaf callables (int, date.fromisoformat, UUID, ...) are uninterpreted: identity of the callee object is what is proved",
                           "composition lemma of DESIGN 4.2 (paper argument) beyond the enumerated nesting depth"},
        functions=["<generated> __mashumaro_from_dict__/__mashumaro_to_dict__ field expressions (pack.py / unpack.py registries)", "<generated> typed-dict / named-tuple helper functions"],
        crashes=crashes,
    )


def _collect(results):
    obs, crashes, trusted = [], [], set()
    for r in results:
        if "crash" in r:
            crashes.append(r["crash"] + " @ " + r["payload"] + "\n" + r["trace"][-600:])
            continue
        obs.extend(r["obligations"])
        trusted.update(r.get("trusted", ()))
    return obs, crashes, trusted


def _is_container(t):
    return any(k in t for k in ("List", "list", "Dict", "dict", "Sequence", "Mapping", "Set", "set", "Tuple", "tuple", "deque", "Deque",
                                "ChainMap", "Counter", "OrderedDict", "NT", "TD", "MappingProxy"))


def check_c18(pid, tier):
    from . import g4

    t0 = time.time()
    types = [t for t in g4.type_lattice(tier) if _is_container(t)]
    if tier == "quick":
        # quick: depth <= 1 for every container constructor, depth 2 for list/dict/Optional nests
        types = [t for t in types if t.count("[") <= 1 or t.startswith(("List[", "Dict[", "Optional["))]
    payloads = []
    for dn in g4.DIALECTS:
        sel = types if (dn == "default" or tier == "thorough") else [t for t in types if any(k in t for k in ("List", "list", "Dict", "dict", "Sequence", "Mapping"))]
        if dn == "nt_as_dict":
            sel = [t for t in types if "NT" in t]
        payloads += [(pid, t, dn, "both") for t in sel]
    res1 = runner.run_pool(g4.g4_task, payloads, chunks=2)
    # (dataclass elements under a codec default dialect are compiled for that dialect: C13's subject)
    cod = [(pid, t, dn) for dn in g4.DIALECTS for t in (types[:24] if tier == "quick" else types) if (dn == "default" or "D1" not in t) and dn != "nt_as_dict"]
    cod += [(pid, t, "nt_as_dict") for t in types if "NT" in t]
    res2 = runner.run_pool(g4.codec_task, cod, chunks=2)
    # format mixins carry no_copy_collections = (list, dict); with dialect support the per-format caches
    # keep a unit compiled under one format's dialect from serving another format
    from . import g7

    fpts = [g7.FPoint(m, "eager", ds, fs, False, cd) for m in ("dict", "orjson", "msgpack", "toml") for ds in (False, True) for fs in ("native",)
            for cd in (("none", "options") if ds else ("none",))]
    res3 = runner.run_pool(g7.g7_task, [(pid, p) for p in fpts], chunks=1)
    obs, crashes, trusted = _collect(res1 + res2 + res3)
    # format codecs under user dialects that set no_copy_collections: the user's setting wins over the format dialect's
    obs += g7._extra_codecs(pid, tier, uds=("no_copy_none", "no_copy_list"))
    return runner.finish(
        pid, tier, obs, t0,
        technique="ownership judgement inside the REF equality (fresh copy vs the input object itself; aliasing is accepted only where REF_ENC under no_copy_collections returns the input) on the harvested code of every container template, plus syntactic frame obligations (no store into / mutating call on anything reached from a parameter) on every generated function; z3",
        units=len(payloads) + len(cod),
        extra_cov={"types": len(types), "dialects": list(g4.DIALECTS),
                   "explanation": "per type x dialect: ref_enc / ref_dec obligations in identity mode and one frame obligation over all generated functions of the schema; codec encode/decode units likewise"},
        trusted=trusted | {"A4: table of mutating method names used by the frame scan", "hooks and hole methods do not mutate their arguments (A2)"},
        functions=["<generated> to_dict/from_dict/encode/decode and helper functions for container-typed positions"],
        crashes=crashes,
    )


def check_c15(pid, tier):
    from . import g1, g4

    t0 = time.time()
    types = g4.type_lattice("quick")
    if tier == "quick":
        types = [t for t in types if t.count("[") <= 1 or "*tuple" in t]
    # bare TypeVars and Final[...] are field annotations, not codec shapes
    cod = [(pid, t, "default") for t in types if t not in ("TV", "TVA") and not t.startswith("Final[")]
    res2 = runner.run_pool(g4.codec_task, cod, chunks=2)
    # dataclass shapes: mixin and plain twins against the same FROM_SPEC
    pts = []
    for p in g1.lattice_c05("quick"):
        if len(p.fields) <= 2 and not p.forbid_extra_keys and not p.pre_hook and not p.post_hook and not p.dialect_support:
            pts.append(g1.Point(p.fields, base="mixin"))
            pts.append(g1.Point(p.fields, base="plain"))
    seen, upts = set(), []
    for p in pts:
        if p.label() not in seen:
            seen.add(p.label())
            upts.append(p)
    res1 = runner.run_pool(g1.g1_task, [(pid, p) for p in upts], chunks=4)
    # format mixin methods vs the codec / dict entry points on Self-typed and inherited shapes: every entry point
    # is proved against the same reference, and every class-level unit call resolves to a unit the class owns
    from . import g7

    fpts = [g7.FPoint(m, mode, False, fs) for m in ("orjson", "msgpack", "toml", "dict") for mode in ("eager", "lazy") for fs in ("selfref", "selfsub")]
    res3 = runner.run_pool(g7.g7_task, [(pid, p) for p in fpts], chunks=1)
    obs, crashes, trusted = _collect(res1 + res2 + res3)
    from . import units

    obs += units.verify_oneshot(pid)
    # the Decoder/Encoder of every format under user dialects (dict entries, strategy objects, pass_through) against the
    # reference of the effective dialect - the same reference the mixin methods and the basic codec are proved against
    obs += g7._extra_codecs(pid, tier, uds=("strategies", "strategy_objects", "pass_natives"))
    from . import c17 as _c17

    for r in runner.run_pool(_c17.codec_same_name_task, [(pid,)], chunks=1) + runner.run_pool(_c17.codec_selfref_task, [(pid,)], chunks=1):
        if "crash" in r:
            crashes.append(r["crash"] + " @ " + r["payload"] + "\n" + r["trace"][-500:])
        else:
            obs.extend(r["obligations"])
    return runner.finish(
        pid, tier, obs, t0,
        technique="relational claims via a shared reference term: the codec encode/decode unit of T, the unit for List[T] (elementwise), the mixin method and the holder function of a plain dataclass are each proved equal to the same REF_ENC/REF_DEC/FROM_SPEC (pysym + z3), hence to each other; slot (frame) obligations on every module-level statement of the harvested texts",
        units=len(cod) + len(upts),
        extra_cov={"types": len(types), "dataclass_points": len(upts),
                   "explanation": "per type: DEC, ENC, DECL (List[T]), ENCL obligations + slots; per dataclass point: mixin and plain twin against FROM_SPEC"},
        trusted=trusted | {"a conforming value of exactly the annotated dataclass: x.m() is D.m(x) (Python method resolution)",
                           "two units compiled for the same (class, method, dialect) are interchangeable callees: each is separately proved against the dataclass contract"},
        functions=["CodecCodeBuilder.add_decode_method / add_encode_method (generated decode/encode)", "<generated> holder functions of plain dataclasses"],
        crashes=crashes,
    )


def check_c17(pid, tier):
    from . import c17

    return c17.check(pid, tier)


def check_g7(pid, tier):
    from . import g7

    t0 = time.time()
    pts = g7.lattice(tier)
    if pid == "C14":
        pts = [p for p in pts if p.mode != "eager" or not p.dialect_support]
    elif pid == "C13":
        pts = [p for p in pts if p.dialect_support]
    elif pid == "C04":
        pts = [p for p in pts if p.mixin != "dict" and p.call_dialect in ("none", "strategy")]
    res = runner.run_pool(g7.g7_task, [(pid, p) for p in pts], chunks=1)
    extra = []
    if pid in g7.EXTRA:
        extra = g7.EXTRA[pid](pid, tier)
    if pid == "C13":
        # dialect=D on a class with flag parameters: the default unit's dialect branch composed with the unit
        # compiled for D must equal the twin class whose default dialect is D (PROJECT, keyword > call dialect > config)
        import itertools

        from . import g2

        pts2 = []
        for opt in ("omit_none", "serialize_by_alias", "omit_default"):
            for vc, vg in itertools.product((False, True), (None, False, True)):
                o = (("call", opt, vc),) + ((("cfg", opt, vg),) if vg is not None else ())
                for flags in (("D", "N"), ("B", "D"), ("B", "D", "N")):
                    pts2.append(g2.PPoint(g2.FS_A, o, False, flags, "mixin"))
        for r in runner.run_pool(g2.g2_task, [(pid, p) for p in pts2], chunks=2):
            if "crash" in r:
                extra.append(dict(id=f"{pid}.G2/crash", status="error", detail=r["crash"] + " @ " + r["payload"] + r["trace"][-400:]))
            else:
                extra += [o for o in r["obligations"] if "/dispatch" in o["id"]]
    if pid == "C13":
        from . import c19

        for r in (runner.run_pool(c19.recunion_task, [(pid, b_, ("ADD_DIALECT_SUPPORT",)) for b_ in ("dict", "orjson")], chunks=1)
                  + runner.run_pool(c19.member_flags_task, [(pid, b_, ("ADD_DIALECT_SUPPORT",)) for b_ in ("dict", "orjson", "msgpack")], chunks=1)):
            if "crash" in r:
                extra.append(dict(id=f"{pid}.Grec/crash", status="error", detail=r["crash"] + " @ " + r["payload"] + r["trace"][-400:]))
            else:
                extra += r["obligations"]
    if pid == "C14":
        from . import s6key

        extra = extra + s6key.all_obligations(pid)  # specialisations keyed by a hash of type arguments: order independence needs an injective key
        # eager compilation happens inside __init_subclass__, BEFORE @dataclass has processed the class (Field.kw_only is still
        # unset): the eagerly compiled unit must satisfy the same FROM_SPEC - derived from the finished class - as a later compilation
        from . import g1

        kpts = [p for p in g1.lattice_c05("quick") if any(f.role in ("cls_kw_only", "kw_only", "after_KW_ONLY") for f in p.fields)]
        res = res + runner.run_pool(g1.g1_task, [(pid, p) for p in kpts], chunks=4)
        # one variants registry per variant method (a class registered through one format's entry point owns that format's unit only)
        from . import c12

        res = res + runner.run_pool(c12.format_registry_task, [(pid, f) for f in c12.FMT_MIXINS], chunks=1)
    obs, crashes, trusted = _collect(res)
    obs += extra
    return runner.finish(
        pid, tier, obs, t0,
        technique="contract obligations evaluated on the real generated texts: (params) builder parameters = the mixin's declaration, (stubs) every embedded rebuild call restores its own slot with the same class/format/coder/default dialect and cannot be lazy again, cache names are per format, flags are forwarded; (semantic) each compiled unit, after the first call, is proved by symbolic execution (pysym, z3) equal to encoder(PROJECT(REF_ENC)) / FROM_SPEC(decoder(.)) under its effective dialect - the shared reference term that makes lazy == eager and dialect=D == default dialect D",
        units=len(pts),
        extra_cov={"points": len(pts), "explanation": "per schema point: first_call, params, stubs obligations and one semantic obligation per compiled unit (default and call-dialect)"},
        trusted=trusted | {"A8: third-party encoders/decoders (orjson, msgpack, tomli, tomli_w, yaml, json) are opaque and total on their representable subset",
                           "first calls are executed natively once per entry point to make the stubs compile (their outcome is an obligation, the proof is on the compiled text)"},
        functions=["CodeBuilder._add_unpack_method_lines_lazy / _add_pack_method_lines_lazy / _add_*_method_with_dialect_lines / _add_setattr_method / add_pack_method / add_unpack_method (through the texts they produce)",
                   "compile_mixin_packer / compile_mixin_unpacker wiring (params obligations)"]
        + (["dialect.py:Dialect.merge (S2: whole-view postcondition + frame, real AST, pointwise loop rule)"] if pid == "C13" else []),
        crashes=crashes,
    )


def check_c10(pid, tier):
    from . import c10

    return c10.check(pid, tier)


def check_c11(pid, tier):
    from . import c11

    return c11.check(pid, tier)


def check_c19(pid, tier):
    from . import c19

    return c19.check(pid, tier)


def check_c12(pid, tier):
    from . import c12

    return c12.check(pid, tier)


def check_c16(pid, tier):
    from . import c16

    return c16.check(pid, tier)


def check_c06(pid, tier):
    from . import c06

    return c06.check06(pid, tier)


def check_c20(pid, tier):
    from . import c06

    return c06.check20(pid, tier)


def check_c01(pid, tier):
    from . import c01

    return c01.check(pid, tier)


CHECKS = {"C01": check_c01, "C20": check_c20, "C06": check_c06, "C16": check_c16, "C12": check_c12, "C19": check_c19, "C11": check_c11, "C10": check_c10, "C04": check_g7, "C13": check_g7, "C14": check_g7, "C17": check_c17, "C15": check_c15, "C18": check_c18, "C02": check_g4, "C03": check_g4, "C05": check_g1, "C07": check_g1, "C09": check_g1, "C08": check_g2}


def main(argv):
    import argparse

    ap = argparse.ArgumentParser()
    ap.add_argument("pid")
    ap.add_argument("--tier", default=os.environ.get("VERIF_TIER", "quick"))
    ap.add_argument("--replay")
    a = ap.parse_args(argv)
    if a.replay:
        from . import replay

        return replay.main(a.pid, a.replay)
    fn = CHECKS.get(a.pid)
    if fn is None:
        print(f"no check for {a.pid}")
        return 3
    try:
        return fn(a.pid, a.tier)
    except SystemExit:
        raise
    except BaseException:
        import traceback

        traceback.print_exc()
        return 3


if __name__ == "__main__":
    sys.exit(main(sys.argv[1:]))

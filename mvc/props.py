"""property -> check implementation"""
import os
import sys
import time

from . import runner


def check_g1(pid, tier):
    from . import g1

    t0 = time.time()
    pts = g1.LATTICES[pid](tier)
    results = runner.run_pool(g1.g1_task, [(pid, p) for p in pts], chunks=4)
    obs, crashes, trusted = [], [], set()
    for r in results:
        if "crash" in r:
            crashes.append(r["crash"] + " @ " + r["payload"] + "\n" + r["trace"][-600:])
            continue
        obs.extend(r["obligations"])
        trusted.update(r.get("trusted", ()))
    return runner.finish(
        pid, tier, obs, t0,
        technique="VCs from the harvested generated from_dict (pysym symbolic execution, all inputs d) against FROM_SPEC/KEYMODEL, z3; exhaustive schema lattice",
        units=len(pts),
        extra_cov={"lattice_points": len(pts), "exhaustive": True,
                   "explanation": "one from_spec obligation (all paths x all inputs) and one cover obligation per schema point"},
        trusted=trusted | {"hole conversions are uninterpreted (H._deserialize, int): the induction hypothesis of DESIGN.md 1.3",
                           "inspect.signature(cls).bind maps constructor arguments to parameters"},
        functions=["<generated> __mashumaro_from_dict__ (CodeBuilder._add_unpack_method_lines, FieldUnpackerCodeBlockBuilder.build)"],
        crashes=crashes,
    )


def check_g2(pid, tier):
    from . import g2

    t0 = time.time()
    pts = g2.lattice(tier)
    results = runner.run_pool(g2.g2_task, [(pid, p) for p in pts], chunks=2)
    obs, crashes, trusted = [], [], set()
    for r in results:
        if "crash" in r:
            crashes.append(r["crash"] + " @ " + r["payload"] + "\n" + r["trace"][-600:])
            continue
        obs.extend(r["obligations"])
        trusted.update(r.get("trusted", ()))
    return runner.finish(
        pid, tier, obs, t0,
        technique="VCs from the harvested generated to_dict (pysym, all instances and keyword flags symbolic) against PROJECT(options, plain), z3; exhaustive option lattice",
        units=len(pts),
        extra_cov={"lattice_points": len(pts), "exhaustive": True,
                   "explanation": "one obligation per (schema/option point, compiled unit, set of passed flag arguments): all paths x all instances"},
        trusted=trusted | {"hole serialisation is uninterpreted and does not raise on conforming values (induction hypothesis)",
                           "== is transitive for default objects (factory defaults are called once at build time)"},
        functions=["<generated> __mashumaro_to_dict__ (CodeBuilder._add_pack_method_lines, _pack_method_set_value, get_pack_method_default_flag_values, get_pack_method_flags)"],
        crashes=crashes,
    )


def check_g4(pid, tier):
    from . import g4

    t0 = time.time()
    types = g4.type_lattice(tier)
    direction = {"C02": "enc", "C03": "dec"}[pid]
    payloads = [(pid, t, "default", direction) for t in types]
    if pid == "C02":
        for dn in ("nocopy_list", "nocopy_dict", "nocopy_both"):
            payloads += [(pid, t, dn, "enc") for t in types if any(k in t for k in ("List", "list", "Dict", "dict", "Sequence", "Mapping"))][: (40 if tier == "quick" else 100000)]
    results = runner.run_pool(g4.g4_task, payloads, chunks=2)
    obs, crashes, trusted = [], [], set()
    for r in results:
        if "crash" in r:
            crashes.append(r["crash"] + " @ " + r["payload"] + "\n" + r["trace"][-600:])
            continue
        obs.extend(r["obligations"])
        trusted.update(r.get("trusted", ()))
    what = "REF_ENC" if pid == "C02" else "REF_DEC"
    return runner.finish(
        pid, tier, obs, t0,
        technique=f"VCs from the harvested generated code of `x: T` (pysym) against {what}(T), an independent reference reading of the type hints; z3; type lattice = leaf table + constructor templates over hole types + depth-2/3 compositions",
        units=len(payloads),
        extra_cov={"types": len(types), "exhaustive": False,
                   "explanation": "one obligation per type expression (and dialect): all paths x all inputs, value equality and raise-iff against the reference"},
        trusted=trusted | {"leaf callables (int, date.fromisoformat, UUID, ...) are uninterpreted: identity of the callee object is what is proved",
                           "composition lemma of DESIGN 4.2 (paper argument) beyond the enumerated nesting depth"},
        functions=["<generated> __mashumaro_from_dict__/__mashumaro_to_dict__ field expressions (pack.py / unpack.py registries)", "<generated> typed-dict / named-tuple helper functions"],
        crashes=crashes,
    )


CHECKS = {"C02": check_g4, "C03": check_g4, "C05": check_g1, "C07": check_g1, "C09": check_g1, "C08": check_g2}


def main(argv):
    import argparse

    ap = argparse.ArgumentParser()
    ap.add_argument("pid")
    ap.add_argument("--tier", default=os.environ.get("VERIF_TIER", "quick"))
    ap.add_argument("--replay")
    a = ap.parse_args(argv)
    if a.replay:
        from . import replay

        return replay.main(a.pid, a.replay)
    fn = CHECKS.get(a.pid)
    if fn is None:
        print(f"no check for {a.pid}")
        return 3
    try:
        return fn(a.pid, a.tier)
    except SystemExit:
        raise
    except BaseException:
        import traceback

        traceback.print_exc()
        return 3


if __name__ == "__main__":
    sys.exit(main(sys.argv[1:]))

"""S6: the cache key of generic specialisations (helpers.py:hash_type_args, used by
CodeBuilder.get_pack_method_name / get_unpack_method_name).

pack_dataclass / unpack_dataclass reuse a compiled `__mashumaro_{to,from}_dict_<key>__` whenever the
generic dataclass already has an attribute of that name, so the key must determine the type arguments
(C03: never a look-alike; C14: no dependence on which specialisation came first).

  /key-is-full-name-digest   symbolic: the function's result, computed by pysym from the real AST, equals
        md5(",".join(type_name(a) for a in type_args).encode()).hexdigest()      (spec function)
     with every type_name call normalised to its full parameter binding (so `short=False` written out is
     the same call, `short=True` is not); map(f, xs) and generator/list comprehensions normalise to the
     same comprehension term; z3 decides the equality by congruence.  Assumed (A-names): type_name with
     default flags is injective on importable classes and md5 does not collide.
  /look-alikes   bounded (labelled so): concrete pairs of distinct classes that stress A-names - same
     class name in two modules, same-qualname local classes - must get different keys; the replay shows
     the decoded look-alike on the real code.
"""
from __future__ import annotations

import ast
import inspect
import types

import z3

from . import pysym
from .pysym import Call, Ob, Tm

HELPERS = "/repo/mashumaro/core/meta/helpers.py"
SPEC_SRC = '''
def hash_type_args(type_args):
    return md5(",".join(type_name(a) for a in type_args).encode()).hexdigest()
'''


def _run(eng, src_fn, ns, args_t):
    import mashumaro.core.meta.helpers as H

    tn = H.type_name
    sig = inspect.signature(tn)

    def call(ex, fnv, args, kw, node, st, ctx):
        o = fnv.o if isinstance(fnv, Ob) else None
        if o is tn:
            try:
                ba = sig.bind(*args, **dict(kw))
            except TypeError:
                return None
            full = []
            for name, p in sig.parameters.items():
                full.append((name, ba.arguments[name] if name in ba.arguments else Ob(p.default)))
            return ex.opaque_call(("canon", "type_name"), "type_name", [], full, ctx, node)
        if o is map and len(args) == 2 and not kw:
            st.env["__mapf"], st.env["__mapsrc"] = args
            tree = ast.parse("(__mapf(__x) for __x in __mapsrc)", mode="eval").body
            return ex.eval(tree, st, ctx)
        if isinstance(o, types.BuiltinMethodType) and isinstance(getattr(o, "__self__", None), str):
            if o.__name__ == "join" and len(args) == 1 and isinstance(args[0], pysym.Comp) and args[0].kind in ("list", "gen"):
                c = args[0]  # str.join consumes a list and a generator of the same elements alike
                args = [pysym.Comp("gen", c.src, c.bound, c.body, c.pattern, c.outer)]
            return ex.opaque_call(("strmeth", o.__self__, o.__name__), f"str_{o.__name__}", list(args), kw, ctx, node)
        return None

    ex = pysym.Executor(eng, ns, hooks={"call": call})
    ex.assume_hasattr = True
    ex.nonraising_prefixes = ("",)
    ex.nonraising.add(("canon", "type_name"))
    ex.nonraising.add(pysym._const_key(H.md5))
    for k in (",",):
        for m in ("join",):
            ex.nonraising.add(("strmeth", k, m))
    return ex.run(src_fn, {src_fn.args.args[0].arg: Tm(args_t)}, pc=[eng.iterable(args_t)])  # precondition: type_args is iterable


def verify_key(pid, path=HELPERS):
    import mashumaro.core.meta.helpers as H

    unit = "helpers.py:hash_type_args"
    oid = f"{pid}.S6[hash_type_args]/key-is-full-name-digest"
    mod = ast.parse(open(path).read())
    fns = [n for n in mod.body if isinstance(n, ast.FunctionDef) and n.name == "hash_type_args"]
    if not fns:
        return [dict(id=oid, status="undecided", unit=unit, detail="hash_type_args not found")]
    spec_fn = ast.parse(SPEC_SRC).body[0]
    eng = pysym.Engine()
    args_t = eng.fresh("type_args")
    ns = dict(H.__dict__)
    try:
        code_paths = _run(eng, fns[0], ns, args_t)
        spec_paths = _run(eng, spec_fn, ns, args_t)
    except pysym.NotInSubset as e:
        return [dict(id=oid, status="undecided", unit=unit, detail=f"outside the verified subset: {e}")]
    prover = pysym.Prover(eng, 10000)
    live = [p for p in code_paths if prover.sat(p.pc)[0] != z3.unsat]
    spec_paths = [p for p in spec_paths if prover.sat(p.pc)[0] != z3.unsat]
    if len(spec_paths) != 1 or spec_paths[0].kind != "return":
        return [dict(id=oid, status="error", unit=unit, detail="the specification function did not evaluate to one returning path")]
    want = eng.term(spec_paths[0].value)
    bad = []
    for p in live:
        if p.kind != "return":
            bad.append(f"a path raises {p.value!r}")
            continue
        try:
            got = eng.term(p.value)
        except pysym.NotInSubset as e:
            return [dict(id=oid, status="undecided", unit=unit, detail=f"outside the verified subset: {e}")]
        v = prover.prove("key", p.pc, got == want)
        if v.status == "unknown":
            return [dict(id=oid, status="undecided", unit=unit, detail=f"solver: {v.detail}")]
        if v.status != "proved":
            bad.append("the key is not the digest of the comma-joined full (module-qualified, default-flag) type names of the arguments")
    if not live:
        return [dict(id=oid, status="undecided", unit=unit, detail="no feasible path")]
    w = None
    if bad:
        w = lookalike_witness(only_importable=True)
    return [dict(id=oid, status="refuted" if bad else "proved", unit=unit, detail="; ".join(sorted(set(bad))), paths=len(live), witness=w)]


def _pairs():
    import sys
    from dataclasses import dataclass
    from decimal import Decimal

    out = []
    mods = []
    for i, pt in ((1, "int"), (2, "Decimal")):
        m = types.ModuleType(f"mvc_s6_models_v{i}")
        sys.modules[m.__name__] = m
        exec(f"from dataclasses import dataclass\nfrom decimal import Decimal\n@dataclass\nclass Item:\n    price: {pt}\n", m.__dict__)
        mods.append(m)
    out.append(("same class name in two modules", mods[0].Item, mods[1].Item, True))

    def mk(pt):
        Item = dataclass(type("Item", (), {"__annotations__": {"price": pt}, "__qualname__": "mk.<locals>.Item", "__module__": __name__}))
        return Item

    out.append(("two local classes with the same qualified name", mk(int), mk(Decimal), False))
    return out


def lookalike_witness(only_importable=False, only_local=False):
    """distinct classes whose names stress the key; returns a replay dict when a pair shares a key"""
    from dataclasses import dataclass
    from typing import Generic, TypeVar

    from mashumaro import DataClassDictMixin
    from mashumaro.core.meta.helpers import hash_type_args

    for label, A, B, importable in _pairs():
        if only_importable and not importable:
            continue
        if only_local and importable:
            continue
        if hash_type_args((A,)) != hash_type_args((B,)):
            continue
        why = f"hash_type_args(({A.__module__}.{A.__qualname__},)) == hash_type_args(({B.__module__}.{B.__qualname__},)) for two distinct classes"
        # consequence on the public API
        try:
            T = TypeVar("T")
            Box = dataclass(types.new_class("Box", (Generic[T],), {}, lambda ns: ns.update({"__annotations__": {"content": T}})))
            O1 = dataclass(type("O1", (DataClassDictMixin,), {"__annotations__": {"box": Box[A]}}))
            O2 = dataclass(type("O2", (DataClassDictMixin,), {"__annotations__": {"box": Box[B]}}))
            r2 = O2.from_dict({"box": {"content": {"price": "10"}}})
            if type(r2.box.content) is not B:
                why += f"; O2.from_dict(...) returned box.content of class {'A' if type(r2.box.content) is A else type(r2.box.content)!r} (the look-alike), price={r2.box.content.price!r}"
        except Exception as e:  # noqa
            why += f"; decoding Box[B] after Box[A] raised {type(e).__name__}: {str(e)[:120]}"
        return {"confirmed": True, "input": f"{label}: Box[A] compiled first, then Box[B]", "why": why}
    return None


def verify_lookalikes(pid):
    obs = []
    for label, only_imp, only_loc, tag in (("importable", True, False, "{modules}"), ("local", False, True, "{same-qualname}")):
        w = lookalike_witness(only_importable=only_imp, only_local=only_loc)
        obs.append(dict(id=f"{pid}.S6[hash_type_args]/look-alikes{tag}", status="refuted" if w else "proved", unit="helpers.py:hash_type_args (bounded: concrete look-alike pairs)",
                        detail=(w or {}).get("why", ""), witness=w, bounded=True))
    return obs


def all_obligations(pid):
    return verify_key(pid) + verify_lookalikes(pid)

"""C17: closedness of every generated text on all paths + identity binding of schema classes"""
from __future__ import annotations

import ast
import time

from . import build, g4, harvest, pysym, runner, units

AWKWARD = {
    # name -> (prelude additions, type expression)
    "same_name_local_classes": ('''
def _mk(tag):
    class L(_Hole):
        TAG = tag
    return L
L1 = _mk(1)
L2 = _mk(2)
''', ["L1", "L2", "List[L1]", "Dict[str, L2]"], "two"),
    "functional_enum": ('''
FE = enum.Enum("FE", {"a": 1, "b": 2})
FE2 = enum.Enum("FE2", {"a b": 1, "c": 2})
''', ["FE", "FE2", "List[FE]"], None),
    "functional_namedtuple": ('''
FNT = collections.namedtuple("FNT", "p q")
FNT2 = NamedTuple("FNT2", [("p", H1), ("q", int)])
''', ["FNT", "FNT2", "List[FNT2]"], None),
    "functional_typeddict": ('''
FTD = TypedDict("FTD", {"p": H1, "q": int})
''', ["FTD", "List[FTD]"], None),
    "renamed_class": ('''
class _Orig(_Hole): pass
Renamed = _Orig
del _Orig
''', ["Renamed", "Optional[Renamed]", "List[Renamed]"], None),
    "local_class": ('''
def _f():
    class Loc(_Hole): pass
    return Loc
Loc = _f()
''', ["Loc", "List[Loc]", "Dict[str, Loc]", "Tuple[Loc, int]"], None),
    "make_dataclass": ('''
import dataclasses as _dc
Dyn = _dc.make_dataclass("DynHidden", [("z", int)], bases=(DataClassDictMixin,))
''', ["Dyn", "List[Dyn]", "Optional[Dyn]"], None),
    "generic_with_local_arg": ('''
def _g():
    @dataclass
    class LocItem:
        price: int
    return LocItem
LocItem = _g()
_GT = TypeVar("_GT")
@dataclass
class GBox(Generic[_GT]):
    content: _GT
@dataclass
class GBox2(Generic[_GT]):
    items: List[_GT]
''', ["GBox[LocItem]", "GBox2[LocItem]", "List[GBox[LocItem]]"], None),
    "local_value_factories": ('''
from mashumaro.types import GenericSerializableType
def _lf():
    @dataclass
    class LocV(DataClassDictMixin):
        z: int = 0
    return LocV
LocV = _lf()
_GST = TypeVar("_GST")
class GSer(Generic[_GST], GenericSerializableType):
    def __init__(self, v):
        self.v = v
    def __eq__(self, other):
        return type(other) is GSer and other.v == self.v
    def _serialize(self, types):
        return self.v
    @classmethod
    def _deserialize(cls, value, types):
        return cls(value)
''', ["DefaultDict[str, LocV]", "collections.defaultdict[str, List[LocV]]", "GSer[LocV]", "GSer[List[LocV]]"], None),
    "same_name_other_modules": ('''
import sys as _sys
def _mkmod(tag, ptype):
    m = types.ModuleType(f"mvc_c17_items_{tag}_" + __name__.replace(".", "_"))
    _sys.modules[m.__name__] = m
    exec(f"from dataclasses import dataclass\\nfrom decimal import Decimal\\nfrom mashumaro import DataClassDictMixin\\n@dataclass\\nclass Item(DataClassDictMixin):\\n    qty: {ptype} = 0\\n", m.__dict__)
    return m.Item
OA = _mkmod("a", "int")
OB = _mkmod("b", "Decimal")
''', ["OA", "OB", "List[OB]"], ("OA", "OB")),
    # a TypedDict / NamedTuple of ANOTHER module whose member annotation is a nested string reference: the name is resolved in the
    # module that owns the annotation, not in the module of the dataclass that uses it (which has an Item of its own)
    "forwardref_other_module": ('''
import sys as _sys
def _mkfr():
    m = types.ModuleType("mvc_c17_fr_" + __name__.replace(".", "_"))
    _sys.modules[m.__name__] = m
    exec("from dataclasses import dataclass\\nfrom typing import List, Dict\\nfrom typing_extensions import TypedDict\\nfrom mashumaro import DataClassDictMixin\\n"
         "@dataclass\\nclass Item(DataClassDictMixin):\\n    v: int = 0\\n"
         "class FTD(TypedDict):\\n    items: List['Item']\\n    one: Dict[str, 'Item']\\n"
         "from typing import NamedTuple\\nclass FNT(NamedTuple):\\n    items: List['Item']\\n    n: int = 0\\n", m.__dict__)
    return m
_FRM = _mkfr()
FTD = _FRM.FTD
FNT = _FRM.FNT
FItem = _FRM.Item
@dataclass
class Item(DataClassDictMixin):
    w: int = 7
''', ["FTD", "List[FTD]", "FNT"], None),
    "local_discriminated": ('''
from mashumaro.types import Discriminator
def _ld():
    @dataclass
    class LB(DataClassDictMixin):
        pass
    @dataclass
    class LV(LB):
        kind: str = "v"
        a: int = 0
    return LB, LV
LB, LV = _ld()
LDisc = Annotated[LB, Discriminator(field="kind", include_subtypes=True)]
''', ["LDisc", "List[LDisc]"], None),
    "generic_discriminated": ('''
from mashumaro.types import Discriminator
_GDT = TypeVar("_GDT")
@dataclass
class GB(Generic[_GDT], DataClassDictMixin):
    kind: str = "base"
    v: Optional[_GDT] = None
@dataclass
class GI(GB[int]):
    kind: str = "int"
GDisc = Annotated[GB[int], Discriminator(field="kind", include_subtypes=True, include_supertypes=True)]
GDiscSub = Annotated[GB[int], Discriminator(field="kind", include_subtypes=True)]
''', ["GDisc", "GDiscSub", "List[GDisc]"], None),
    "str_subclass": ('''
class MyStr(str):
    pass
''', ["Union[MyStr, int]", "Union[int, MyStr, None]", "List[Union[MyStr, int]]"], None),
    "other_module_discriminator": ('''
import sys as _sys
_om = types.ModuleType("mvc_c17_other_" + __name__.replace(".", "_"))
_sys.modules[_om.__name__] = _om
exec("from dataclasses import dataclass\\nfrom mashumaro import DataClassDictMixin\\n@dataclass\\nclass OBase(DataClassDictMixin):\\n    pass\\n@dataclass\\nclass OV1(OBase):\\n    kind: str = 'v1'\\n    a: int = 0\\n", _om.__dict__)
OBase, OV1 = _om.OBase, _om.OV1
from mashumaro.types import Discriminator
ODisc = Annotated[OBase, Discriminator(field="kind", include_subtypes=True)]
''', ["ODisc", "List[ODisc]"], None),
    "builtins_generics": ("", ["types.MappingProxyType[str, int]", "re.Pattern", "collections.deque[int]", "collections.OrderedDict[str, H1]",
                                "collections.defaultdict[str, H1]", "collections.defaultdict[str, List[int]]", "zoneinfo.ZoneInfo", "pathlib.PosixPath"], None),
}


CUSTOM = {}
_MODS = ["ipaddress.IPv4Address", "decimal.Decimal", "fractions.Fraction", "uuid.UUID", "pathlib.PurePosixPath", "zoneinfo.ZoneInfo",
         "datetime.date", "collections.OrderedDict", "re.Pattern"]
for _i, _m in enumerate(_MODS):
    for _form, _ann in (("pep604", f"{_m} | str"), ("union", f"Union[{_m}, str]"), ("optional", f"Optional[{_m}]"), ("plain", _m),
                        ("list", f"List[{_m}]"), ("dict", f"Dict[str, {_m}]"),
                        ("blist", f"list[{_m}]"), ("bdict", f"dict[str, {_m}]"), ("btuple", f"tuple[{_m}, ...]")):
        for _how in ("field_override", "config_strategy", "none"):
            if _how == "none" and _form in ("pep604", "union"):
                continue  # unions without overrides are specified under C11
            body = ["@dataclass", "class C(DataClassDictMixin):"]
            if _how == "field_override":
                body.append(f"    x: {_ann} = field(metadata={{'deserialize': _idf, 'serialize': _idf}})")
                body.append(f"    y: {_ann} = field(default=None, metadata={{'deserialize': _idf, 'serialize': _idf}})")
            elif _how == "config_strategy":
                body.append(f"    x: {_ann}")
                body.append(f"    y: Optional[{_ann}] = None")
                body.append("    class Config(BaseConfig):")
                body.append(f"        serialization_strategy = {{{_ann}: {{'deserialize': _idf, 'serialize': _idf}}}}")
            else:
                body.append(f"    x: {_ann}")
                body.append(f"    y: Optional[{_ann}] = None")
            CUSTOM[f"{_form}/{_how}/{_m}"] = "def _idf(v):\n    return v\n" + "\n".join(body) + "\n"


def custom_task(payload):
    pid, name = payload
    return _verify_closed_only(pid, f"[custom:{name}]", g4.PRELUDE + CUSTOM[name])


def awkward_task(payload):
    pid, fam, texpr, mode = payload
    extra, _, _ = AWKWARD[fam]
    label = f"[{fam}:{texpr}]{'' if mode == 'one' else '@two'}"
    src = g4.PRELUDE + extra
    if mode == "two":
        # two same-named classes in ONE schema
        _two = AWKWARD[fam][2]
        n1, n2 = _two if isinstance(_two, tuple) else ("L1", "L2")
        src += f"\n@dataclass\nclass C(DataClassDictMixin):\n    x: {n1}\n    w: {n2}\n    v: List[{n2}]\n    y: Optional[{n1}] = None\n"
    else:
        src += f"\n@dataclass\nclass C(DataClassDictMixin):\n    x: {texpr}\n    y: Optional[{texpr}] = None\n"
    if fam in SAMPLES:
        # specialised generic dataclasses have no symbolic reference: closedness of every generated
        # function (all paths) + a concrete identity sample, labelled bounded
        r = _verify_closed_only(pid, label, src)
        r["obligations"] += _sample_identity(pid, label, src, SAMPLES[fam][texpr])
        return r
    return _verify_schema(pid, label, src)


SAMPLES = {
    "generic_discriminated": {
        "GDisc": ("{'kind': 'int', 'v': '1'}", "type(v) is GI and v.v == 1 and type(C.from_dict({'x': {'kind': 'base'}}).x) is GB"),
        "GDiscSub": ("{'kind': 'int', 'v': '1'}", "type(v) is GI and v.v == 1"),
        "List[GDisc]": ("[{'kind': 'int'}, {'kind': 'base'}]", "[type(e) for e in v] == [GI, GB]"),
    },
    "local_discriminated": {
        "LDisc": ("{'kind': 'v', 'a': 2}", "type(v) is LV and v.a == 2"),
        "List[LDisc]": ("[{'kind': 'v', 'a': 2}]", "type(v[0]) is LV"),
    },
    "local_value_factories": {
        "DefaultDict[str, LocV]": ("{'k': {'z': 1}}", "type(v['k']) is LocV and type(v['missing']) is LocV"),
        "collections.defaultdict[str, List[LocV]]": ("{'k': [{'z': 1}]}", "type(v['k'][0]) is LocV"),
        "GSer[LocV]": ("5", "type(v) is GSer and v.v == 5"),
        "GSer[List[LocV]]": ("5", "type(v) is GSer and v.v == 5"),
    },
    "str_subclass": {
        "Union[MyStr, int]": ("'a'", "v == 'a'"),
        "Union[int, MyStr, None]": ("'a'", "v == 'a'"),
        "List[Union[MyStr, int]]": ("['a', 1]", "v == ['a', 1]"),
    },
    "other_module_discriminator": {
        "ODisc": ("{'kind': 'v1', 'a': 2}", "type(v) is OV1 and v.a == 2"),
        "List[ODisc]": ("[{'kind': 'v1', 'a': 2}]", "type(v[0]) is OV1"),
    },
    "forwardref_other_module": {
        "FTD": ("{'items': [{'v': 1}], 'one': {'k': {'v': 2}}}", "type(v['items'][0]) is FItem and v['items'][0].v == 1 and type(v['one']['k']) is FItem and C(v).to_dict()['x'] == {'items': [{'v': 1}], 'one': {'k': {'v': 2}}}"),
        "List[FTD]": ("[{'items': [{'v': 1}], 'one': {}}]", "type(v[0]['items'][0]) is FItem"),
        "FNT": ("[[{'v': 1}], 2]", "type(v.items[0]) is FItem and v.items[0].v == 1 and C(v).to_dict()['x'] == [[{'v': 1}], 2]"),
    },
    "generic_with_local_arg": {
        "GBox[LocItem]": ("{'content': {'price': '7'}}", "type(v.content) is LocItem and v.content.price == 7"),
        "GBox2[LocItem]": ("{'items': [{'price': '7'}]}", "type(v.items[0]) is LocItem and v.items[0].price == 7"),
        "List[GBox[LocItem]]": ("[{'content': {'price': '7'}}]", "type(v[0].content) is LocItem and v[0].content.price == 7"),
    },
}


def _sample_identity(pid, label, src, sample):
    data_expr, check_expr = sample
    oid = f"{pid}.G9{label}/identity_sample"
    try:
        mod, recs = build.build_module(src)
    except Exception as e:  # reported by /builds
        return []
    try:
        ns = dict(mod.__dict__)
        data = eval(data_expr, ns)
        try:
            r = mod.C.from_dict({"x": data})
            ok = bool(eval(check_expr, dict(ns, v=r.x))) and r.y is None and mod.C.from_dict(r.to_dict()) == r
            why = "" if ok else f"from_dict({{'x': {data_expr}}}) = {r!r}: the decoded value is not built from the annotated classes"
        except Exception as e:  # noqa
            ok, why = False, f"from_dict({{'x': {data_expr}}}) raised {type(e).__name__}: {str(e)[:200]}"
        return [dict(id=oid, status="proved" if ok else "refuted", unit="C.from_dict / to_dict on one sample (bounded)", detail=why, bounded=True,
                     witness=None if ok else {"confirmed": True, "source": src, "input": f"{{'x': {data_expr}}}", "why": why})]
    finally:
        build.drop_module(mod)


def _verify_schema(pid, label, src, dialect="default"):
    from . import g1, g2

    obs = []
    try:
        mod, recs = build.build_module(src)
    except Exception as e:
        return {"obligations": [dict(id=f"{pid}.G9{label}/builds", status="refuted", unit="class creation",
                                     detail=f"schema does not build: {type(e).__name__}: {e}",
                                     witness={"confirmed": True, "source": src, "why": f"{type(e).__name__}: {e}"})]}
    try:
        cls = mod.C
        probs = []
        nfun = 0
        for r in recs:
            nfun += r.text.count("def ")
            probs += units.closedness_problems(r)
        obs.append(dict(id=f"{pid}.G9{label}/closed", status="proved" if not probs else "refuted", unit=f"{nfun} generated functions in {len(recs)} texts",
                        detail="; ".join(probs)[:900],
                        witness=({"confirmed": True, "source": src, "why": probs[0]} if probs else None)))
        table = g4.helper_table(recs)
        for direction, name in (("dec", "__mashumaro_from_dict__"), ("enc", "__mashumaro_to_dict__")):
            us = build.find_units(recs, cls, name)
            oid = f"{pid}.G9{label}/identity_{direction}"
            if len(us) != 1:
                obs.append(dict(id=oid, status="error", detail=f"{len(us)} units"))
                continue
            rec, fn = us[0]
            try:
                if direction == "dec":
                    pt = g1.Point(())
                    object.__setattr__(pt, "exc_details", False)
                    res = g1.verify_from_dict(cls, fn, dict(rec.globals), pt, view_factory=g4.make_dec_view(cls, dialect), inline=table)
                    obs.append(g4._ob(oid, res, rec, "REF_DEC", cls, dialect, src))
                else:
                    res = g2.verify_to_dict(cls, fn, dict(rec.globals), g2.PPoint(()), ("cfgd", "cfg"), frozenset(),
                                            view_factory=g4.make_enc_view(cls, dialect), inline=table)
                    obs.append(g4._ob(oid, res, rec, "REF_ENC", cls, dialect, src))
            except (pysym.NotInSubset, g4.ref.Unsupported) as e:
                obs.append(dict(id=oid, status="undecided", detail=f"outside the verified subset: {e}", unit=rec.text[:600]))
        return {"obligations": obs}
    finally:
        build.drop_module(mod)


CODEC_SAME_NAME_SRC = '''
import sys as _sys
def _mkplain(tag, body):
    m = types.ModuleType(f"mvc_c17_plain_{tag}_" + __name__.replace(".", "_"))
    _sys.modules[m.__name__] = m
    exec("from dataclasses import dataclass, field\\nfrom decimal import Decimal\\nfrom typing import List\\nfrom mashumaro import DataClassDictMixin\\n@dataclass\\nclass Event" + body, m.__dict__)
    return m.Event
PA = _mkplain("a", ":\\n    name: str = 'a'\\n    qty: int = 1\\n")
PB = _mkplain("b", ":\\n    name: str = 'b'\\n    qty: Decimal = Decimal('2')\\n    tags: List[str] = field(default_factory=list)\\n")
MA = _mkplain("ma", "(DataClassDictMixin):\\n    name: str = 'a'\\n    qty: int = 1\\n")
MB = _mkplain("mb", "(DataClassDictMixin):\\n    name: str = 'b'\\n    qty: Decimal = Decimal('2')\\n    tags: List[str] = field(default_factory=list)\\n")
from mashumaro.codecs.basic import BasicDecoder, BasicEncoder
from mashumaro.codecs.json import JSONEncoder, JSONDecoder
@dataclass
class Holder:
    a: PA
    b: PB
    bs: List[PB] = field(default_factory=list)
'''


def codec_same_name_task(payload):
    """two distinct dataclasses with one class name, from different modules, inside ONE codec shape: every position is
    (de)serialized by the code of its own class.  Closedness of all generated functions + the codec calls on one value
    per arrangement (bounded; the mixin twin of this schema has symbolic identity obligations in the
    same_name_other_modules family)."""
    pid = payload[0]
    src = g4.PRELUDE + CODEC_SAME_NAME_SRC
    obs = []
    try:
        mod, recs0 = build.build_module(src)
    except Exception as e:
        return {"obligations": [dict(id=f"{pid}.G9[codec_same_name]/builds", status="refuted", detail=f"{type(e).__name__}: {e}"[:300], witness={"confirmed": True, "source": src, "why": str(e)[:200]})]}
    try:
        from decimal import Decimal

        probs = []
        shapes = {"Tuple[PA, PB]": (lambda: (mod.PA(), mod.PB(tags=["x"])), [{"name": "a", "qty": 1}, {"name": "b", "qty": "2", "tags": ["x"]}]),
                  "Tuple[PB, PA]": (lambda: (mod.PB(tags=["x"]), mod.PA()), [{"name": "b", "qty": "2", "tags": ["x"]}, {"name": "a", "qty": 1}]),
                  "Tuple[MA, MB]": (lambda: (mod.MA(), mod.MB(tags=["x"])), [{"name": "a", "qty": 1}, {"name": "b", "qty": "2", "tags": ["x"]}]),
                  "Dict[str, Tuple[PB, PA]]": (lambda: {"k": (mod.PB(), mod.PA())}, {"k": [{"name": "b", "qty": "2", "tags": []}, {"name": "a", "qty": 1}]}),
                  "Holder": (lambda: mod.Holder(mod.PA(), mod.PB(), [mod.PB(tags=["y"])]), {"a": {"name": "a", "qty": 1}, "b": {"name": "b", "qty": "2", "tags": []}, "bs": [{"name": "b", "qty": "2", "tags": ["y"]}]})}
        n0 = len(harvest.RECORDER.records)
        for sh, (mk, want) in shapes.items():
            for encn, decn in (("BasicEncoder", "BasicDecoder"), ("JSONEncoder", "JSONDecoder")):
                try:
                    T = eval(sh, dict(mod.__dict__))
                    v = mk()
                    enc = getattr(mod, encn)(T)
                    dec = getattr(mod, decn)(T)
                    out = enc.encode(v)
                    doc = out if encn == "BasicEncoder" else __import__("json").loads(out)
                    if doc != want:
                        probs.append(f"{encn}({sh}).encode(..) = {doc!r}, expected {want!r}")
                    back = dec.decode(out)
                    from . import samples

                    if not samples.same(back, v):
                        probs.append(f"{decn}({sh}).decode(encode(v)) = {back!r}, expected {v!r}")
                except Exception as e:  # noqa
                    probs.append(f"{encn}/{decn}({sh}) raised {type(e).__name__}: {str(e)[:140]}")
        closed = []
        for r in harvest.RECORDER.records[n0:]:
            closed += units.closedness_problems(r)
        w = {"confirmed": True, "source": src, "input": "Event of module a and Event of module b in one codec shape", "why": probs[0]} if probs else None
        obs.append(dict(id=f"{pid}.G9[codec_same_name]/closed", status="proved" if not closed else "refuted", unit="generated encode/decode functions of the codec shapes", detail="; ".join(closed)[:600]))
        obs.append(dict(id=f"{pid}.H9[codec_same_name]/own_class_code", status="proved" if not probs else "refuted", unit="codec calls on one value per arrangement (bounded)", bounded=True,
                        detail="; ".join(sorted(set(probs)))[:700], witness=w))
        return {"obligations": obs}
    finally:
        build.drop_module(mod)


SELFCODEC_SRC = '''
from mashumaro.codecs.basic import BasicDecoder, BasicEncoder
from mashumaro.codecs.msgpack import MessagePackDecoder, MessagePackEncoder
@dataclass
class PNode:
    v: int = 0
    children: List["PNode"] = field(default_factory=list)
    nxt: Optional["PNode"] = None
@dataclass
class MNode(DataClassDictMixin):
    v: int = 0
    children: List["MNode"] = field(default_factory=list)
    nxt: Optional["MNode"] = None
'''


def codec_selfref_task(payload):
    """a plain dataclass that refers to itself, given to the codecs: they build, every generated function is closed, and
    encode / decode agree with the mixin twin of the same shape (bounded sample)"""
    pid = payload[0]
    src = g4.PRELUDE + SELFCODEC_SRC
    try:
        mod, recs0 = build.build_module(src)
    except Exception as e:
        return {"obligations": [dict(id=f"{pid}.G9[codec_selfref]/builds", status="refuted", detail=f"{type(e).__name__}: {e}"[:300], witness={"confirmed": True, "source": src, "why": str(e)[:200]})]}
    try:
        probs, closed = [], []
        n0 = len(harvest.RECORDER.records)
        pv = mod.PNode(1, [mod.PNode(2, [], mod.PNode(3))], None)
        mv = mod.MNode(1, [mod.MNode(2, [], mod.MNode(3))], None)
        want = mv.to_dict()
        for encn, decn in (("BasicEncoder", "BasicDecoder"), ("MessagePackEncoder", "MessagePackDecoder")):
            try:
                enc, dec = getattr(mod, encn)(mod.PNode), getattr(mod, decn)(mod.PNode)
                out = enc.encode(pv)
                if encn == "BasicEncoder" and out != want:
                    probs.append(f"{encn}(PNode).encode(..) = {out!r}, the mixin twin gives {want!r}")
                if dec.decode(out) != pv:
                    probs.append(f"{decn}(PNode).decode(encode(v)) != v")
            except Exception as e:  # noqa
                probs.append(f"{encn}/{decn}(PNode) raised {type(e).__name__}: {str(e)[:140]}")
        for r in harvest.RECORDER.records[n0:]:
            closed += units.closedness_problems(r)
        w = {"confirmed": True, "source": src, "input": "PNode(1, [PNode(2, [], PNode(3))])", "why": probs[0]} if probs else None
        return {"obligations": [dict(id=f"{pid}.G9[codec_selfref]/closed", status="proved" if not closed else "refuted", detail="; ".join(closed)[:500]),
                                dict(id=f"{pid}.H9[codec_selfref]/agrees_with_mixin", status="proved" if not probs else "refuted", bounded=True, unit="codec calls on one value (bounded)",
                                     detail="; ".join(probs)[:600], witness=w)]}
    finally:
        build.drop_module(mod)


ENGINE_SRC = '''
class NTdt(NamedTuple):
    when: datetime.date
    n: int = 0
class NTin(NamedTuple):
    inner: NTdt
    k: str = ""
@dataclass
class C(DataClassDictMixin):
    x: {T} = field(metadata={{{MD}}})
'''
ENGINE_POINTS = {
    # (type, metadata) -> (input for from_dict, expected to_dict()["x"])
    ("NTdt", "'serialize': 'as_dict', 'deserialize': 'as_dict'"): ("{'when': '2020-01-02', 'n': 1}", "{'when': '2020-01-02', 'n': 1}"),
    ("NTdt", "'deserialize': 'as_dict'"): ("{'when': '2020-01-02', 'n': 1}", "['2020-01-02', 1]"),
    ("NTdt", "'serialize': 'as_dict'"): ("['2020-01-02', 1]", "{'when': '2020-01-02', 'n': 1}"),
    ("NTdt", "'serialize': 'as_list', 'deserialize': 'as_list'"): ("['2020-01-02', 1]", "['2020-01-02', 1]"),
    ("NTin", "'serialize': 'as_dict', 'deserialize': 'as_dict'"): ("{'inner': {'when': '2020-01-02', 'n': 1}, 'k': 'q'}", "{'inner': {'when': '2020-01-02', 'n': 1}, 'k': 'q'}"),
}


def engine_task(payload):
    """documented field-level engines for named tuples (as_dict / as_list) on named tuples whose members have converters of
    their own: the class builds, every generated function is closed, and the sample decodes / encodes as documented (bounded)"""
    pid, T, MD = payload
    tag = "{nt-engine+member-converter}" if ("deserialize" in MD and "as_dict" in MD.split("deserialize")[1][:12]) else ""
    label = f"[engine:{T}:{MD.replace(chr(39), '').replace(' ', '')}]{tag}"
    src = g4.PRELUDE + ENGINE_SRC.format(T=T, MD=MD)
    inp, want = ENGINE_POINTS[(T, MD)]
    try:
        mod, recs = build.build_module(src)
    except Exception as e:
        return {"obligations": [dict(id=f"{pid}.G9{label}/builds", status="refuted", unit="class creation", detail=f"schema does not build: {type(e).__name__}: {e}"[:300],
                                     witness={"confirmed": True, "source": src, "why": f"{type(e).__name__}: {e}"[:300]})]}
    try:
        probs = []
        closed = []
        for r in recs:
            closed += units.closedness_problems(r)
        try:
            v = mod.C.from_dict({"x": eval(inp)})
            out = v.to_dict()["x"]
            if out != eval(want):
                probs.append(f"to_dict()['x'] = {out!r}, expected {eval(want)!r}")
            if type(v.x).__name__ != T:
                probs.append(f"decoded {type(v.x).__name__}")
        except Exception as e:  # noqa
            probs.append(f"from_dict({{'x': {inp}}}) raised {type(e).__name__}: {str(e)[:160]}")
        return {"obligations": [dict(id=f"{pid}.G9{label}/closed", status="proved" if not closed else "refuted", detail="; ".join(closed)[:500]),
                                dict(id=f"{pid}.G9{label}/sample", status="proved" if not probs else "refuted", bounded=True, detail="; ".join(probs)[:400],
                                     witness=({"confirmed": True, "source": src, "input": f"{{'x': {inp}}}", "why": probs[0]} if probs else None))]}
    finally:
        build.drop_module(mod)


def lattice_task(payload):
    pid, texpr = payload
    return _verify_closed_only(pid, f"[{texpr}]", g4.class_source(texpr))


def _verify_closed_only(pid, label, src):
    try:
        mod, recs = build.build_module(src)
    except Exception as e:
        return {"obligations": [dict(id=f"{pid}.G9{label}/builds", status="refuted", unit="class creation",
                                     detail=f"schema does not build: {type(e).__name__}: {e}",
                                     witness={"confirmed": True, "source": src, "why": f"{type(e).__name__}: {e}"})]}
    try:
        probs = []
        nfun = 0
        for r in recs:
            nfun += r.text.count("def ")
            probs += units.closedness_problems(r)
        return {"obligations": [dict(id=f"{pid}.G9{label}/closed", status="proved" if not probs else "refuted",
                                     unit=f"{nfun} generated functions in {len(recs)} texts", detail="; ".join(probs)[:900],
                                     witness=({"confirmed": True, "source": src, "why": probs[0]} if probs else None))]}
    finally:
        build.drop_module(mod)


def g1_closed_task(payload):
    from . import g1

    pid, point = payload
    return _verify_closed_only(pid, "G1" + point.label(), g1.class_source(point))


def check(pid, tier):
    from . import g1

    t0 = time.time()
    payloads = []
    for fam, (_, types, two) in AWKWARD.items():
        for t in types:
            payloads.append((pid, fam, t, "one"))
        if two:
            payloads.append((pid, fam, "+".join(two) if isinstance(two, tuple) else "L1+L2", "two"))
    res1 = runner.run_pool(awkward_task, payloads, chunks=1)
    res1 += runner.run_pool(custom_task, [(pid, n) for n in CUSTOM], chunks=4)
    res1 += runner.run_pool(codec_same_name_task, [(pid,)], chunks=1)
    types = g4.type_lattice(tier)
    res2 = runner.run_pool(lattice_task, [(pid, t) for t in types], chunks=4)
    pts = [p for p in g1.lattice_c09("quick")][:: (4 if tier == "quick" else 1)] + [p for p in g1.lattice_c05("quick")][:: (6 if tier == "quick" else 1)]
    res3 = runner.run_pool(g1_closed_task, [(pid, p) for p in pts], chunks=4)
    obs, crashes = [], []
    for r in res1 + res2 + res3:
        if "crash" in r:
            crashes.append(r["crash"] + " @ " + r["payload"] + "\n" + r["trace"][-500:])
        else:
            obs.extend(r["obligations"])
    # specialisations of a generic dataclass are bound through a method *name* derived from the type arguments:
    # identity of the bound class needs that name to determine them (S6)
    try:
        from . import s6key

        s6 = s6key.all_obligations(pid)
        for o in s6:
            # the same-qualname pair is this property's recorded finding F-C17-same-qualname seen through the key
            if o["id"].endswith("look-alikes{same-qualname}"):
                o["id"] = f"{pid}.G9[same_name_local_classes:L1+L2]@two/key"
        obs += s6
    except Exception as e:  # noqa
        import traceback

        crashes.append(f"S6: {type(e).__name__}: {e}\n" + traceback.format_exc()[-500:])
    return runner.finish(
        pid, tier, obs, t0,
        technique="static closedness obligations over every syntactic position of every harvested generated text (names resolve; every closed reference expression, incl. error-path constructor arguments, evaluates in the recorded namespace) + identity binding through the REF equality (callee objects compared by identity) on a family of awkward classes; pysym + z3",
        units=len(payloads) + len(types) + len(pts),
        extra_cov={"awkward_schemas": len(payloads), "override_schemas": len(CUSTOM), "lattice_types": len(types), "dataclass_points": len(pts),
                   "explanation": "closed: one obligation per schema over all its generated texts; identity_dec/identity_enc: REF equality with schema classes bound by object identity"},
        trusted={"evaluation of closed reference expressions uses CPython itself on the recorded namespace (no model)"},
        functions=["CodeBuilder.add_type_modules / ensure_object_imported / ensure_module_imported / get_type_name_identifier (through the texts they produce)", "type_name, clean_id"],
        crashes=crashes,
    )

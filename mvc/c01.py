"""C01: basic-form round trip is the identity.

(S1) core/helpers.py:parse_timezone - contract from the property: for every whole-minute offset m in
     (-1440, 1440): offset(parse_timezone(TZNAME(m))) = m, TZNAME = CPython's timezone.tzname format;
     every other string raises ValueError. The real AST is executed by pysym under the regex-structural
     rule (DESIGN 2.6): the pattern is parsed from the module each run, a match is a tuple of digit
     variables constrained by the pattern's character classes, int(sign d1 d2) = +-(10 d1 + d2); the
     obligations are linear integer arithmetic for z3. The rule itself is cross-checked exhaustively
     against CPython's re/int on the pattern's finite language every run.
(RT) dataclass level: for every schema point the generated to_dict is executed symbolically on an
     arbitrary conforming instance and its result (a local dict) is fed to the generated from_dict; on
     every path the constructor receives exactly the original attribute values (hole contract
     dec_H(enc_H(v)) = v), i.e. from_dict(x.to_dict()) = x, mixin and codec path.
"""
from __future__ import annotations

import ast
import dataclasses
import datetime
import itertools
import re
import time

import z3

from . import build, g1, g2, pysym, ref, runner
from .pysym import Bl, Call, Exc, Ite, LD, LL, Ob, Tm, _const_key, _short


# ---------------------------------------------------------------------------------------------
# S1: parse_timezone
# ---------------------------------------------------------------------------------------------
class IntV(pysym.SymVal):
    def __init__(self, i):
        self.i = i

    def __repr__(self):
        return f"IntV({self.i})"


class DigStr(pysym.SymVal):
    """a matched group: optional sign (+1/-1 z3 Int or None) and digit variables"""

    def __init__(self, sign, digits):
        self.sign = sign
        self.digits = digits

    def value(self):
        v = 0
        for d in self.digits:
            v = v * 10 + d
        return v if self.sign is None else self.sign * v


class Obj(pysym.SymVal):
    is_local_object = True

    def __init__(self, kind, **kw):
        self.kind = kind
        self.kw = kw

    def __repr__(self):
        return f"Obj({self.kind} {self.kw})"


def as_int(v):
    if isinstance(v, IntV):
        return v.i
    if isinstance(v, Ob) and isinstance(v.o, int):
        return z3.IntVal(v.o)
    if isinstance(v, Ite):
        return z3.If(v.c, as_int(v.a), as_int(v.b))
    raise pysym.NotInSubset(f"integer value expected, got {v!r}")


def pattern_structure(pattern):
    """regex-structural reading of ^UTC(([+-]CC):(CC))?$ : returns the digit ranges per position"""
    import re._parser as sp  # type: ignore

    p = sp.parse(pattern)
    items = list(p)
    def lit(it, ch):
        return it[0] == sp.LITERAL and chr(it[1]) == ch
    i = 0
    if items[i][0] == sp.AT:
        i += 1
    for ch in "UTC":
        if not lit(items[i], ch):
            raise pysym.NotInSubset("pattern is not anchored at the literal UTC")
        i += 1
    opt = items[i]
    if opt[0] != sp.MAX_REPEAT or opt[1][0] != 0 or opt[1][1] != 1:
        raise pysym.NotInSubset("pattern has no optional offset group")
    g1_ = list(opt[1][2])
    if len(g1_) != 1 or g1_[0][0] != sp.SUBPATTERN:
        raise pysym.NotInSubset("offset is not a single group")
    inner = list(g1_[0][1][3])
    # group 2: sign + two digits ; ':' ; group 3: two digits
    if len(inner) != 3 or inner[0][0] != sp.SUBPATTERN or not lit(inner[1], ":") or inner[2][0] != sp.SUBPATTERN:
        raise pysym.NotInSubset("offset group is not (sign hh):(mm)")
    g2_ = list(inner[0][1][3])
    g3_ = list(inner[2][1][3])

    def cls(it):
        if it[0] != sp.IN:
            raise pysym.NotInSubset("position is not a character class")
        chars = set()
        for k, v in it[1]:
            if k == sp.RANGE:
                chars |= {chr(c) for c in range(v[0], v[1] + 1)}
            elif k == sp.LITERAL:
                chars.add(chr(v))
            else:
                raise pysym.NotInSubset("character class item")
        return chars

    signs = cls(g2_[0])
    if signs != {"+", "-"} or len(g2_) != 3 or len(g3_) != 2:
        raise pysym.NotInSubset("sign/digit layout")
    ranges = []
    for it in (g2_[1], g2_[2], g3_[0], g3_[1]):
        cs = cls(it)
        if not cs <= set("0123456789"):
            raise pysym.NotInSubset("non-digit class")
        ds = sorted(int(c) for c in cs)
        if ds != list(range(ds[0], ds[-1] + 1)):
            raise pysym.NotInSubset("non-contiguous digit class")
        ranges.append((ds[0], ds[-1]))
    if items[i + 1:] and not all(it[0] == sp.AT for it in items[i + 1:]):
        raise pysym.NotInSubset("trailing pattern")
    return ranges


def verify_parse_timezone():
    import mashumaro.core.helpers as H

    src = open("/repo/mashumaro/core/helpers.py").read()
    mod = ast.parse(src)
    fn = [n for n in mod.body if isinstance(n, ast.FunctionDef) and n.name == "parse_timezone"][0]
    obs = []
    try:
        ranges = pattern_structure(H.UTC_OFFSET_PATTERN)
    except pysym.NotInSubset as e:
        return [dict(id="C01.S1[parse_timezone]/pattern", status="undecided", detail=str(e))]
    # ---- cross-check of the regex-structural rule against CPython (exhaustive over the language)
    n, bad = 0, 0
    for sgn in "+-":
        for d in itertools.product(*[range(lo, hi + 1) for lo, hi in ranges]):
            s = f"UTC{sgn}{d[0]}{d[1]}:{d[2]}{d[3]}"
            m = H.UTC_OFFSET_RE.match(s)
            n += 1
            if not m or int(m.group(2)) != (1 if sgn == "+" else -1) * (10 * d[0] + d[1]) or int(m.group(3)) != 10 * d[2] + d[3]:
                bad += 1
    if not H.UTC_OFFSET_RE.match("UTC") or H.UTC_OFFSET_RE.match("UTC+1:00") or H.UTC_OFFSET_RE.match("utc"):
        bad += 1
    obs.append(dict(id="C01.S1[parse_timezone]/regex_rule_crosscheck", status="proved" if bad == 0 else "error", unit="regex-structural rule vs CPython re/int",
                    detail=f"{n} strings of the pattern's language" if bad == 0 else f"{bad} disagreements: engine rule unsound for this pattern"))
    results = {}
    for case in ("utc", "offset", "nomatch"):
        eng = pysym.Engine()
        sgn = z3.Int("sgn")
        ds = [z3.Int(f"d{i}") for i in range(4)]
        pre = [z3.Or(sgn == 1, sgn == -1)] + [z3.And(d >= lo, d <= hi) for d, (lo, hi) in zip(ds, ranges)]

        def call(ex, fnv, args, kw, node, st, ctx, case=case):
            o = fnv.o if isinstance(fnv, Ob) else None
            if isinstance(o, tuple) and o and o[0] == "match":
                if case == "nomatch":
                    return Ob(None)
                return Obj("match", case=case)
            if isinstance(o, tuple) and o and o[0] == "group":
                k = args[0].o
                if case == "utc":
                    return Ob(None)
                if k == 1:
                    return Ob("<offset>")
                if k == 2:
                    return DigStr(sgn, ds[:2])
                if k == 3:
                    return DigStr(None, ds[2:])
                raise pysym.NotInSubset("group index")
            if isinstance(o, tuple) and o and o[0] == "startswith":
                return Bl(o[1].sign == (1 if args[0].o == "+" else -1)) if args[0].o in "+-" else Bl(z3.BoolVal(False))
            if o is int and len(args) == 1 and isinstance(args[0], DigStr):
                return IntV(args[0].value())
            if o is datetime.timedelta:
                d = dict(kw)
                tot = 0
                for unit, mult in (("hours", 60), ("minutes", 1)):
                    if unit in d:
                        v = d[unit]
                        tot = tot + mult * as_int(v)
                if set(d) - {"hours", "minutes"} or args:
                    raise pysym.NotInSubset("timedelta arguments")
                return Obj("timedelta", minutes=tot)
            if o is datetime.timezone and len(args) == 1 and isinstance(args[0], Obj) and args[0].kind == "timedelta":
                m = args[0].kw["minutes"]
                # CPython contract: timezone(offset) requires -24h < offset < 24h
                ctx.add_raise(z3.Not(z3.And(m > -1440, m < 1440)), Exc(Ob(ValueError), [], origin="timezone() range"))
                return Obj("timezone", minutes=m)
            return None

        class Ex(pysym.Executor):
            def getattr(self, base, name, node, st, ctx):
                if isinstance(base, Ob) and base.o is H.UTC_OFFSET_RE and name == "match":
                    return Ob(("match",))
                if isinstance(base, Obj) and base.kind == "match" and name == "group":
                    return Ob(("group",))
                if isinstance(base, DigStr) and name == "startswith":
                    return Ob(("startswith", base))
                if isinstance(base, Ob) and base.o is datetime.timezone and name == "utc":
                    return Obj("timezone", minutes=z3.IntVal(0))
                return super().getattr(base, name, node, st, ctx)

            def method_call(self, recv, name, args, kw, node, st, ctx):
                if isinstance(recv, (Obj, DigStr)):
                    return self.call(self.getattr(recv, name, node, st, ctx), args, kw, node, st, ctx)
                return super().method_call(recv, name, args, kw, node, st, ctx)

            def ev_Compare(self, node, st, ctx):
                l = self.eval(node.left, st, ctx)
                if isinstance(l, IntV) and len(node.ops) == 1:
                    r = self.eval(node.comparators[0], st, ctx)
                    rv = r.i if isinstance(r, IntV) else r.o
                    op = node.ops[0]
                    tbl = {ast.GtE: l.i >= rv, ast.Gt: l.i > rv, ast.Lt: l.i < rv, ast.LtE: l.i <= rv, ast.Eq: l.i == rv, ast.NotEq: l.i != rv}
                    return Bl(tbl[type(op)])
                if isinstance(l, DigStr) and len(node.ops) == 1 and isinstance(node.ops[0], (ast.Eq, ast.NotEq)):
                    raise pysym.NotInSubset("string comparison of a matched group")
                return super().ev_Compare(node, st, ctx)

            def ev_UnaryOp(self, node, st, ctx):
                if isinstance(node.op, ast.USub):
                    v = self.eval(node.operand, st, ctx)
                    if isinstance(v, IntV):
                        return IntV(-v.i)
                return super().ev_UnaryOp(node, st, ctx)

            def ev_Subscript(self, node, st, ctx):
                base = self.eval(node.value, st, ctx)
                if isinstance(base, DigStr) and isinstance(node.slice, ast.Constant) and node.slice.value == 0 and base.sign is not None:
                    return Obj("signchar", sign=base.sign)
                return super().ev_Subscript(node, st, ctx)

            def compare(self, op, a, b, node, ctx):
                if isinstance(a, Obj) and a.kind == "signchar" and isinstance(b, Ob) and b.o in ("+", "-"):
                    c = a.kw["sign"] == (1 if b.o == "+" else -1)
                    return c if isinstance(op, ast.Eq) else z3.Not(c)
                return super().compare(op, a, b, node, ctx)

        class Eng2(pysym.Engine):
            def truth(self, v):
                if isinstance(v, Obj):
                    return z3.BoolVal(True)
                if isinstance(v, DigStr):
                    return z3.BoolVal(True)
                if isinstance(v, IntV):
                    return v.i != 0
                return super().truth(v)

        eng = Eng2()
        ex = Ex(eng, dict(H.__dict__), hooks={"call": call})
        try:
            paths = ex.run(fn, {"s": Tm(eng.fresh("s"))}, pc=pre)
        except pysym.NotInSubset as e:
            results[case] = ("undecided", f"outside the verified subset: {e}", None)
            continue
        T = 60 * (10 * ds[0] + ds[1]) + 10 * ds[2] + ds[3]
        probs = []
        model = None
        s = z3.Solver()
        s.set("timeout", 10000)
        for p in paths:
            hyp = [c for c in p.pc if c is not None]
            if case == "nomatch":
                ok = p.kind == "raise" and p.value.cls is not None and p.value.cls.o is ValueError
                goal = z3.BoolVal(ok)
            elif case == "utc":
                goal = z3.BoolVal(p.kind == "return" and isinstance(p.value, Obj) and p.value.kind == "timezone") if p.kind == "return" else z3.BoolVal(False)
                if p.kind == "return" and isinstance(p.value, Obj) and p.value.kind == "timezone":
                    goal = p.value.kw["minutes"] == 0
            else:
                if p.kind == "return" and isinstance(p.value, Obj) and p.value.kind == "timezone":
                    goal = z3.And(T < 1440, p.value.kw["minutes"] == sgn * T)
                elif p.kind == "raise" and p.value.cls is not None and p.value.cls.o is ValueError:
                    goal = T >= 1440
                else:
                    goal = z3.BoolVal(False)
            s.push()
            for h in hyp:
                s.add(h)
            s.add(z3.Not(goal))
            r = s.check()
            if r == z3.sat:
                m = s.model()
                if case == "offset":
                    vals = [m.eval(x, model_completion=True).as_long() for x in [sgn] + ds]
                    model = f"UTC{'+' if vals[0] == 1 else '-'}{vals[1]}{vals[2]}:{vals[3]}{vals[4]}"
                probs.append(f"path {p.kind} {p.value!r} violates the contract" + (f" for {model!r}" if model else ""))
            elif r != z3.unsat:
                probs.append("solver: unknown")
            s.pop()
        results[case] = ("proved" if not probs else "refuted", "; ".join(probs)[:500], model)
    for case, (st, detail, model) in results.items():
        ob = dict(id=f"C01.S1[parse_timezone]/{case}", status=st, detail=detail, unit="core/helpers.py:parse_timezone", backend="z3")
        if st == "refuted":
            ob["witness"] = tz_witness(model)
        obs.append(ob)
    # ---- the round-trip lemma over the contract: every whole-minute offset's tzname is in the 'offset'/'utc' domain
    m = z3.Int("m")
    s = z3.Solver()
    h, mm = z3.Int("h"), z3.Int("mm")
    a = z3.If(m >= 0, m, -m)
    s.add(m > -1440, m < 1440, m != 0, h == a / 60, mm == a % 60)
    # TZNAME(m) = 'UTC' sign 2d(h) ':' 2d(mm): digits d1=h/10 d2=h%10 d3=mm/10 d4=mm%10 must lie in the pattern's classes and T = |m| < 1440
    digs = [h / 10, h % 10, mm / 10, mm % 10]
    inrange = z3.And(*[z3.And(d >= lo, d <= hi) for d, (lo, hi) in zip(digs, ranges)])
    s.add(z3.Not(z3.And(inrange, 60 * (10 * digs[0] + digs[1]) + 10 * digs[2] + digs[3] == a)))
    r = s.check()
    obs.append(dict(id="C01.S1[parse_timezone]/roundtrip_lemma", status="proved" if r == z3.unsat else "refuted", unit="TZNAME(m) lies in the contract's domain and its T equals |m|", backend="z3",
                    detail="" if r == z3.unsat else f"counterexample m={s.model()[m]}"))
    # TZNAME format itself is an assumed contract on CPython, cross-checked exhaustively
    badn = 0
    for mins in range(-1439, 1440):
        nm = datetime.timezone(datetime.timedelta(minutes=mins)).tzname(None)
        a_ = abs(mins)
        want = "UTC" if mins == 0 else f"UTC{'+' if mins > 0 else '-'}{a_ // 60:02d}:{a_ % 60:02d}"
        if nm != want:
            badn += 1
    obs.append(dict(id="C01.S1[parse_timezone]/tzname_format_crosscheck", status="proved" if badn == 0 else "error", unit="CPython timezone.tzname format (assumed contract A6), 2879 offsets",
                    detail="" if badn == 0 else f"{badn} offsets render differently"))
    return obs


def tz_witness(model_str):
    from mashumaro.core.helpers import parse_timezone

    cands = ([model_str] if model_str else []) + [datetime.timezone(datetime.timedelta(minutes=m)).tzname(None) for m in range(-1439, 1440)]
    for s in cands:
        mt = re.match(r"^UTC(?:([+-])(\d\d):(\d\d))?$", s)
        if not mt:
            continue
        want = 0 if not mt.group(1) else (1 if mt.group(1) == "+" else -1) * (60 * int(mt.group(2)) + int(mt.group(3)))
        try:
            got = parse_timezone(s).utcoffset(None)
            got_m = int(got.total_seconds() // 60)
        except Exception as e:  # noqa
            if abs(want) < 1440:
                return {"confirmed": True, "input": s, "why": f"parse_timezone({s!r}) raised {type(e).__name__}, expected offset {want} minutes"}
            continue
        if got_m != want:
            return {"confirmed": True, "input": s, "expected": f"{want} minutes", "actual": f"{got_m} minutes", "why": f"parse_timezone({s!r}) has offset {got_m} minutes, expected {want}"}
    return None


# ---------------------------------------------------------------------------------------------
# RT: from_dict(to_dict(x)) == x by composing the two generated functions symbolically
# ---------------------------------------------------------------------------------------------
def verify_round_trip(cls, fn_to, ns_to, fn_from, ns_from, point, timeout_ms=10000):
    eng = pysym.Engine()
    self_c = eng.fresh("self")
    view = g1.schema_view(cls)
    fields_all = [f.name for f in dataclasses.fields(cls)]

    def tm_attr(ex, base, name, node, st, ctx):
        if isinstance(base, Tm) and z3.eq(base.t, self_c):
            if name == "__class__":
                return Ob(cls)
            return Tm(eng.func(f"attr!{name}", eng.V, eng.V)(self_c))
        return None

    ex1 = pysym.Executor(eng, ns_to, hooks={"tm_attr": tm_attr})
    ex1.assume_hasattr = True
    ex1.nonraising.add(("meth", "_serialize"))
    pre = [eng.typeof(self_c) == eng.const(cls)]
    hyps = []
    attr = {}
    for fv in view:
        a = eng.func(f"attr!{fv.name}", eng.V, eng.V)(self_c)
        attr[fv.name] = a
        if not fv.nullable:
            pre.append(a != eng.const(None))
        if "MISSING" in ns_from:
            pre.append(a != eng.const(ns_from["MISSING"]))  # a conforming attribute value is never the sentinel
        # leaf inverses on the conforming attribute value (hole contract / documented scalar identity)
        if fv.conv_kind == "hole":
            m = fv.hole._deserialize
            ser = Call(("meth", "_serialize"), "meth__serialize", [Tm(a)])
            back = Call(_const_key(m), _short(m), [ser])
            hyps.append(z3.Implies(a != eng.const(None), eng.term(back) == a))
            hyps.append(z3.Implies(a != eng.const(None), z3.Not(eng.raises_pred(_const_key(m), _short(m), [ser], []))))
            hyps.append(eng.term(ser) != eng.const(None))  # a hole never serializes to null
        elif fv.conv_kind == "int":
            back = Call(_const_key(int), _short(int), [Tm(a)])
            hyps.append(z3.Implies(a != eng.const(None), eng.term(back) == a))
            hyps.append(z3.Implies(a != eng.const(None), z3.Not(eng.raises_pred(_const_key(int), _short(int), [Tm(a)], []))))
    args1 = {"self": Tm(self_c)}
    paths1 = ex1.run(fn_to, args1, pc=pre)
    prover = pysym.Prover(eng, timeout_ms, extra_axioms=pre + hyps)
    problems = []
    npaths = 0
    for p1 in paths1:
        if p1.kind != "return" or not isinstance(p1.value, LD):
            if prover.sat(p1.pc)[0] != z3.unsat:
                problems.append(f"to_dict path does not return a mapping: {p1.kind} {p1.value!r}")
            continue
        if prover.sat(p1.pc)[0] == z3.unsat:
            continue
        ex2 = pysym.Executor(eng, ns_from)
        ex2.nonraising.add(_const_key(cls))
        params = [a.arg for a in fn_from.args.args]
        args2 = {"d": p1.value}
        if params and params[0] == "cls":
            args2["cls"] = Ob(cls)
        notmissing = []
        if "MISSING" in ns_from:
            for _, vv in p1.value.items:
                if not pysym._has_fresh(vv):
                    notmissing.append(eng.term(vv) != eng.const(ns_from["MISSING"]))  # serialized values are never the sentinel
        paths2 = ex2.run(fn_from, args2, pc=list(p1.pc) + notmissing)
        for p2 in paths2:
            npaths += 1
            if prover.sat(p2.pc)[0] == z3.unsat:
                continue
            if p2.kind != "return":
                problems.append(f"from_dict(to_dict(x)) raises {p2.value!r}")
                continue
            got = p2.value
            if not (isinstance(got, Call) and got.key == _const_key(cls)):
                problems.append(f"result is not an instance of the class: {got!r}")
                continue
            norm, pr = g1.normalize_ctor(got, cls)
            if pr:
                problems.extend(pr)
                continue
            gotmap = dict(norm.kw)
            goals = []
            for fv in view:
                a = attr[fv.name]
                if fv.name in gotmap:
                    goals.append(eng.eq_struct(gotmap[fv.name], Tm(a)))
                else:
                    # not passed: the constructor default applies - equal to the original only if the
                    # original attribute equals that default
                    if fv.has_default and fv.default is None:
                        goals.append(a == eng.const(None))
                    else:
                        goals.append(z3.BoolVal(False))
            v = prover.prove("rt", p2.pc, z3.And(*goals) if goals else z3.BoolVal(True))
            if v.status != "proved":
                problems.append(f"on a path the rebuilt instance differs from the original ({v.status}): {got!r}"[:300])
    return {"problems": sorted(set(problems)), "paths": npaths, "queries": prover.queries, "solver_s": prover.time_s}


def rt_task(payload):
    pid, point = payload
    label = point.label()
    src = g1.class_source(point)
    try:
        mod, recs = build.build_module(src)
    except Exception as e:
        return {"obligations": [dict(id=f"{pid}.RT{label}/builds", status="refuted", detail=f"{type(e).__name__}: {e}"[:300],
                                     witness={"confirmed": True, "source": src, "why": f"class creation raises {type(e).__name__}"})]}
    try:
        cls = mod.C
        ut = build.find_units(recs, cls, "__mashumaro_to_dict__")
        uf = build.find_units(recs, cls, "__mashumaro_from_dict__")
        oid = f"{pid}.RT{label}/round_trip"
        if len(ut) != 1 or len(uf) != 1:
            return {"obligations": [dict(id=oid, status="error", detail=f"{len(ut)} to_dict / {len(uf)} from_dict units")]}
        (rt_, ft), (rf, ff) = ut[0], uf[0]
        try:
            res = verify_round_trip(cls, ft, dict(rt_.globals), ff, dict(rf.globals), point)
        except pysym.NotInSubset as e:
            w = rt_witness(mod, cls, point)
            return {"obligations": [dict(id=oid, status="refuted" if w else "undecided", detail=f"outside the verified subset: {e}", witness=w)]}
        ob = dict(id=oid, unit="from_dict o to_dict", paths=res["paths"], queries=res["queries"], solver_s=round(res["solver_s"], 4), backend="z3",
                  status="proved" if not res["problems"] else "refuted", detail="; ".join(res["problems"])[:700], sample=(rt_.text + "\n" + rf.text)[:1500])
        if res["problems"]:
            ob["witness"] = rt_witness(mod, cls, point)
        return {"obligations": [ob]}
    finally:
        build.drop_module(mod)


def rt_witness(mod, cls, point):
    """concrete instances: every nullable field None / set, defaulted fields at default / other"""
    view = g1.schema_view(cls)
    choices = []
    for fv in view:
        vals = []
        if fv.conv_kind == "hole":
            vals.append(fv.hole(1))
        elif fv.conv_kind == "int":
            vals.append(5)
        else:
            vals.append("x")
        if fv.nullable:
            vals.append(None)
        choices.append(vals)
    for combo in itertools.product(*choices):
        kw = {fv.name: v for fv, v in zip(view, combo)}
        try:
            x = cls(**kw)
            if point.base == "mixin":
                y = cls.from_dict(x.to_dict())
            else:
                y = mod.DECODER.decode(mod.ENCODER.encode(x))
        except Exception as e:  # noqa
            return {"confirmed": True, "input": repr(kw), "why": f"round trip raised {type(e).__name__}: {e}"[:300], "source": g1.class_source(point)}
        if y != x:
            return {"confirmed": True, "input": repr(x), "expected": repr(x), "actual": repr(y), "why": f"from_dict(to_dict(x)) = {y!r} != x = {x!r}"[:300], "source": g1.class_source(point)}
    return None


def rt_lattice(tier):
    pts = []
    kinds = g1.KINDS
    for (a1, d1) in kinds:
        for alias in g1.ALIASES:
            for role in ("pos", "kw_only", "inherited"):
                by = alias != "-"
                pts.append(g1.Point((g1.F("a", a1, d1, alias, role),), by_alias=by))
                if alias != "-":
                    pts.append(g1.Point((g1.F("a", a1, d1, alias, role),), allow_not_by_alias=True))
                    pts.append(g1.Point((g1.F("a", a1, d1, alias, role),), by_alias=True, forbid_extra_keys=True))
        pts.append(g1.Point((g1.F("a", a1, d1),), base="plain"))
        pts.append(g1.Point((g1.F("a", a1, d1),), forbid_extra_keys=True))
        pts.append(g1.Point((g1.F("a", a1, d1, "-", "overridden", over="none"),)))
        pts.append(g1.Point((g1.F("a", a1, d1, "-", "mid_overridden", over="req"),)))
    for (a1, d1), (a2, d2) in itertools.product(kinds, kinds):
        need_kw = d1 != "MISSING" and d2 == "MISSING"
        r1 = "kw_only" if need_kw else "pos"
        pts.append(g1.Point((g1.F("a", a1, d1, "-", r1), g1.F("b", a2, d2))))
        if tier == "thorough":
            pts.append(g1.Point((g1.F("a", a1, d1, "meta", r1), g1.F("b", a2, d2, "config")), by_alias=True))
            pts.append(g1.Point((g1.F("a", a1, d1, "-", r1), g1.F("b", a2, d2)), base="plain"))
    # aliases that shadow other fields' names (the alias of one field is the name of another), serialized by alias and
    # read back with the name accepted as a fallback: the wire keys are distinct, nothing may move between fields
    for (a1, d1), src in itertools.product((("Hs", "MISSING"), ("Hs", "value"), ("OptHs", "None"), ("Any", "value"), ("int", "value")), ("meta", "annotated", "config")):
        for allow in (False, True):
            pts.append(g1.Point((g1.F("a", a1, d1, src, "pos" if d1 == "MISSING" else "kw_only", alias_name="b"), g1.F("b", "Hs", "value", src, "kw_only", alias_name="c"),
                                 g1.F("c", "Any", "value", src, "kw_only", alias_name="a")), by_alias=True, allow_not_by_alias=allow))
    if tier == "thorough":
        for ks in itertools.product(kinds[:5], repeat=3):
            fields, seen_default = [], False
            for n, (a, d) in zip("abc", ks):
                role = "kw_only" if (d == "MISSING" and seen_default) else "pos"
                seen_default = seen_default or d != "MISSING"
                fields.append(g1.F(n, a, d, "-", role))
            pts.append(g1.Point(tuple(fields)))
    return g1._dedup(pts)


LOSSY = ("re.Pattern", "typing.Pattern", "datetime.timezone", "zoneinfo", "float", "Any", "TVA", "datetime.timedelta", "Set", "set", "FrozenSet", "frozenset",
         "AbstractSet", "MutableSet", "ChainMap", "Counter", "Sequence", "MutableSequence", "Mapping", "MutableMapping", "os.PathLike", "bytearray")


def rtb_task(payload):
    """bounded complement of the composition argument: on type-directed sample values the real round trip
    from_dict(to_dict(x)) and the reference round trip REF_DEC(REF_ENC(v)) both return the value, built from the
    same classes (types whose basic form is lossy by design or whose canonical class differs from the annotation
    are compared up to the documented canonical class)"""
    from . import g4, samples

    pid, texpr = payload
    src = g4.class_source(texpr)
    label = f"[{texpr}]"
    try:
        mod, _ = build.build_module(src)
    except Exception as e:
        return {"obligations": [dict(id=f"{pid}.RTB{label}/builds", status="refuted", detail=f"{type(e).__name__}: {e}"[:300], bounded=True)]}
    try:
        cls = mod.C
        hints = ref.resolved_hints(cls)
        gen = ref.RefGen()
        gen.owner = cls
        try:
            e_src, d_src = gen.enc(hints["x"], "x"), gen.dec(hints["x"], "x")
            g4._ref_env(gen)
            enc_ref, dec_ref = eval("lambda x: " + e_src, gen.ns), eval("lambda x: " + d_src, gen.ns)
        except Exception:
            enc_ref = dec_ref = None
        probs = []
        n = 0
        lossy = any(k in texpr for k in LOSSY)
        for v in samples.instances(hints["x"], cls):
            if v is None:
                continue
            n += 1
            try:
                inst = cls(x=v)
                back = cls.from_dict(inst.to_dict())
                ok = samples.same(back.x, v) if not lossy else back.x == v
                if not ok:
                    probs.append(f"from_dict(C(x={v!r}).to_dict()).x = {back.x!r}")
            except Exception as e:  # noqa
                probs.append(f"round trip of x={v!r} raised {type(e).__name__}: {str(e)[:120]}")
            if enc_ref is not None:
                try:
                    rb = dec_ref(enc_ref(v))
                    ok = samples.same(rb, v) if not lossy else rb == v
                    if not ok:
                        probs.append(f"the reference round trip of {v!r} gives {rb!r} (specification-level lemma fails)")
                except Exception as e:  # noqa
                    probs.append(f"the reference round trip of {v!r} raised {type(e).__name__}")
        w = {"confirmed": True, "source": src, "input": probs[0].split(" = ")[0] if probs else "", "why": probs[0]} if probs else None
        return {"obligations": [dict(id=f"{pid}.RTB{label}/samples", status="proved" if not probs else "refuted", unit=f"{n} sample values", bounded=True,
                                     detail="; ".join(probs)[:500], witness=w)], "n": n}
    finally:
        build.drop_module(mod)


def check(pid, tier):
    t0 = time.time()
    obs = []
    crashes = []
    try:
        obs += verify_parse_timezone()
    except Exception as e:  # noqa
        import traceback

        crashes.append(f"S1: {type(e).__name__}: {e}\n{traceback.format_exc()[-600:]}")
    try:
        from . import s6key

        obs += s6key.verify_key(pid)  # a shared specialisation key makes the round trip return a look-alike
        from . import s3resolve

        # the two directions must resolve customizations alike: each is proved to follow the same key / level order
        obs += s3resolve.verify_overridden(pid, "serialize") + s3resolve.verify_overridden(pid, "deserialize")
    except Exception as e:  # noqa
        import traceback

        crashes.append(f"S6: {type(e).__name__}: {e}\n{traceback.format_exc()[-600:]}")
    # "built from the same concrete classes": same-named classes of different modules (mixin holder and codec shapes)
    try:
        from . import c17

        pl = []
        for fam in ("same_name_other_modules",):
            _, tys, two = c17.AWKWARD[fam]
            pl += [(pid, fam, t, "one") for t in tys]
            if two:
                pl.append((pid, fam, "+".join(two), "two"))
        for r in runner.run_pool(c17.awkward_task, pl, chunks=1) + runner.run_pool(c17.codec_same_name_task, [(pid,)], chunks=1):
            if "crash" in r:
                crashes.append(r["crash"] + " @ " + r["payload"] + "\n" + r["trace"][-500:])
            else:
                obs.extend(r["obligations"])
    except Exception as e:  # noqa
        import traceback

        crashes.append(f"identity families: {type(e).__name__}: {e}\n{traceback.format_exc()[-600:]}")
    pts = rt_lattice(tier)
    res = runner.run_pool(rt_task, [(pid, p) for p in pts], chunks=4)
    for r in res:
        if "crash" in r:
            crashes.append(r["crash"] + " @ " + r["payload"] + "\n" + r["trace"][-600:])
        else:
            obs.extend(r["obligations"])
    from . import g4

    nb = 0
    # (the hole type serializes to a dict, which cannot be a key of the basic form: H1-keyed mappings are symbolic-only)
    for r in runner.run_pool(rtb_task, [(pid, t) for t in g4.type_lattice(tier) if not t.startswith("Final[") and "[H1," not in t and t != "Counter[H1]"], chunks=8):
        if "crash" in r:
            crashes.append(r["crash"] + " @ " + r["payload"] + "\n" + r["trace"][-600:])
            continue
        nb += r.get("n", 0)
        obs.extend(o for o in r["obligations"] if o["status"] != "proved")  # bounded: only failures are reported
    rtb_note = [{"what": "sample round trips through the real to_dict/from_dict and through REF_DEC(REF_ENC(.)) for every type of the lattice", "values": nb,
                 "note": "bounded complement of the composition argument C02 + C03 + leaf inverses; never counted as proved"}]
    return runner.finish(
        pid, tier, obs, t0,
        technique="(S1) VCs from the real AST of parse_timezone under the regex-structural rule, linear integer arithmetic, z3; (RT) symbolic composition of the generated to_dict and from_dict of every schema point (pysym, z3): the constructor receives exactly the original attribute values on every path",
        units=len(pts) + 1,
        extra_cov={"round_trip_points": len(pts), "explanation": "RT over single fields x alias source x role, ordered pairs of field kinds, override chains, codec path; container/leaf round trips follow from C02 and C03 (code = REF_ENC / REF_DEC) plus the leaf inverse contracts (A6)"},
        trusted={"A6 leaf inverses on conforming values: dec_H(enc_H(v)) = v for hole types, int(i) = i for ints; CPython timezone(offset) range and tzname format (cross-checked exhaustively each run)",
                 "A5 regex-structural rule (cross-checked exhaustively against re/int on the pattern's language each run)",
                 "aliased fields round-trip only with serialize_by_alias or allow_deserialization_not_by_alias (documented), which the lattice respects"},
        bounded=rtb_note,
        functions=["core/helpers.py:parse_timezone (S1, symbolic on the AST)", "core/meta/helpers.py:hash_type_args (S6: key of generic specialisations = digest of full type names, symbolic on the AST)", "<generated> __mashumaro_to_dict__ and __mashumaro_from_dict__ composed"],
        crashes=crashes,
    )

"""C11: union, Optional and Literal resolution.

Per union U (a field ``x: U``; ``y: Optional[U] = None``), three obligations, each decided by
symbolic execution of the generated helper against a reference function written from the property:

  dec_strict   UNION_DEC of the statement: exact-type scalar/null member first, then the first member
               in declaration order that accepts, else raise
  dec_staged   regression contract of the unchanged tree where it deviates from the statement (members
               in declaration order with exact-type tests interleaved, scalar coercions last, null
               fall-back): keeps every listed finding pinned so that any *other* change is reported
  enc          the member whose class matches the value packs it (scalars unchanged)
Literal types: accepts exactly the listed values in listing order and returns the listed constant.
"""
from __future__ import annotations

import ast
import itertools
import time
import zlib
import typing

import z3

from . import build, g1, g2, g4, harvest, pysym, ref, runner, units
from .pysym import Ob, Tm, _const_key

SCALARS = ["int", "float", "bool", "str"]
NONSCALARS = ["H1", "H2", "D1", "D2", "datetime.date", "decimal.Decimal", "E1", "List[H1]", "Dict[str, H1]", "Literal['a', 1]"]
ENC_OK = {"int", "float", "bool", "str", "None", "H1", "H2", "D1", "D2", "datetime.date", "decimal.Decimal", "E1"}

EXTRA_PRELUDE = '''
@dataclass
class D2(DataClassDictMixin):
    w: str = ""

@dataclass
class P1:
    a: int = 0

@dataclass
class P2:
    a: str = ""
'''


def tags(members):
    t = []
    sc = [m for m in members if m in SCALARS]
    ns = [m for m in members if m not in SCALARS and m != "None"]
    if sc and ns:
        t.append("S+N")
    if "None" in members and len(members) >= 3:
        t.append("Z3")
    total = {"decimal.Decimal"}  # members packed by str(), which never raises
    for i, m in enumerate(members):
        if m in total and any(n not in SCALARS and n != "None" and n not in total for n in members[i + 1:]):
            t.append("T<")
            break
    return "".join("{" + x + "}" for x in t)


def union_lattice(tier):
    pool = SCALARS + ["None"] + NONSCALARS
    out = []
    for a, b in itertools.permutations(pool, 2):
        out.append((a, b))
    trip_pool = ["int", "str", "None", "H1", "D1", "datetime.date", "List[H1]", "float"]
    if tier == "thorough":
        trip_pool = pool
    for t in itertools.permutations(trip_pool, 3):
        if tier == "quick" and zlib.crc32(repr(t).encode()) % 4 != 0 and not ("None" in t):
            continue
        out.append(t)
    if tier == "thorough":
        for q in itertools.permutations(["int", "str", "None", "H1", "datetime.date", "List[H1]"], 4):
            out.append(q)
    seen, res = set(), []
    for m in out:
        if m not in seen:
            seen.add(m)
            res.append(m)
    return res


LITERALS = ["Literal['a', 'b']", "Literal[1, 2, 'x']", "Literal[E1.A]", "Literal[E1.A, E1.B, 'a']", "Literal[b'x', 'y']", "Literal[True, None, 0]",
            "Literal['a', Literal['b', 1]]", "Optional[Literal['a']]", "List[Literal['a', 1]]", "Dict[str, Literal[E1.A, 2]]"]
NESTED = ["Union[int, Union[str, H1]]", "Optional[Union[int, H1]]", "List[Union[int, H1]]", "Dict[str, Union[H1, int, None]]",
          "Tuple[Union[int, str], Union[H1, None]]", "Union[List[int], List[H1]]", "Optional[Union[H1, H2]]", "TVC", "List[Union[H1, H2]]",
          "Optional[Union[int, str]]", "Dict[str, Optional[Union[int, float]]]",
          # Optional positions whose enclosing position already dealt with None (Optional / union member / defaulted field)
          "Optional[Tuple[Optional[H1], int]]", "Union[Tuple[Optional[H1], int], List[Optional[H2]]]", "Optional[List[Optional[H1]]]",
          "Optional[Dict[str, Optional[H1]]]", "Optional[NT2]"]
NESTED_TAGS = {"Union[int, Union[str, H1]]": "{S+N}", "Optional[Union[int, H1]]": "{S+N}{Z3}", "List[Union[int, H1]]": "{S+N}",
               "Dict[str, Union[H1, int, None]]": "{S+N}{Z3}", "Optional[Union[H1, H2]]": "{Z3}", "TVC": "{S+N}",
               "Optional[Union[int, str]]": "{Z3}", "Dict[str, Optional[Union[int, float]]]": "{Z3}"}


def class_source(texpr):
    return g4.class_source(texpr, fields="x").replace("NTy = NewType", EXTRA_PRELUDE + "\nTVC = TypeVar('TVC', int, H1)\nNTy = NewType")


def c11_task(payload):
    pid, kind, spec = payload
    if kind == "union":
        members = spec
        texpr = f"Union[{', '.join(members)}]"
        label = f"[{texpr}]{tags(members)}"
    else:
        texpr = spec
        members = None
        label = f"[{texpr}]{NESTED_TAGS.get(texpr, '')}"
    src = class_source(texpr)
    obs = []
    try:
        mod, recs = build.build_module(src)
    except Exception as e:
        return {"obligations": [dict(id=f"{pid}.G5{label}/builds", status="refuted", unit="class creation",
                                     detail=f"schema does not build: {type(e).__name__}: {e}",
                                     witness={"confirmed": True, "source": src, "why": f"{type(e).__name__}: {e}"})]}
    try:
        cls = mod.C
        table = g4.helper_table(recs)
        us = build.find_units(recs, cls, "__mashumaro_from_dict__")
        rec, fn = us[0]
        for mode in ("strict", "staged"):
            oid = f"{pid}.G5{label}/dec_{mode}"
            try:
                pt = g1.Point(())
                object.__setattr__(pt, "exc_details", False)
                genf = "default" if mode == "strict" else g4.staged_genf
                res = g1.verify_from_dict(cls, fn, dict(rec.globals), pt, view_factory=g4.make_dec_view(cls, genf, staged=(mode == "staged")), inline=table)
                ob = g4._ob(oid, res, rec, "UNION_DEC" if mode == "strict" else "the staged regression contract", cls)
                if ob["status"] != "proved":
                    w = dec_witness(mod, cls, texpr, mode)
                    ob["witness"] = w
                obs.append(ob)
            except (pysym.NotInSubset, ref.Unsupported) as e:
                obs.append(dict(id=oid, status="undecided", detail=f"outside the verified subset: {e}", unit=rec.text[:600]))
        enc_ok = (members is not None and all(m in ENC_OK for m in members)) or (members is None and (texpr.startswith(("Literal[", "Optional[Literal", "Optional[Union[")) or texpr in ("Union[int, Union[str, H1]]", "TVC")))
        if enc_ok:
            us = build.find_units(recs, cls, "__mashumaro_to_dict__")
            rec, fn = us[0]
            oid = f"{pid}.G5{label}/enc"
            try:
                res = verify_enc(cls, fn, rec, table, mod)
                obs.append(g4._ob(oid, res, rec, "UNION_ENC", cls))
            except (pysym.NotInSubset, ref.Unsupported) as e:
                obs.append(dict(id=oid, status="undecided", detail=f"outside the verified subset: {e}", unit=rec.text[:600]))
        return {"obligations": obs}
    finally:
        build.drop_module(mod)


def verify_enc(cls, fn, rec, table, mod):
    """to_dict of the union-typed fields against UNION_ENC, for an instance whose field values
    conform to the annotation (exact class of one member)"""
    def genf():
        gen = ref.RefGen()
        return gen

    def hooks_pre(eng, ex, self_c):
        pass

    pp = g2.PPoint(())
    object.__setattr__(pp, "conforming_classes", True)
    return g2.verify_to_dict(cls, fn, dict(rec.globals), pp, ("cfgd", "cfg"), frozenset(), view_factory=g4.make_enc_view(cls, genf), inline=table)


def dec_witness(mod, cls, texpr, mode):
    """bounded stand-in: run the real from_dict and the strict reference natively on a battery"""
    import datetime
    import decimal

    if mode != "strict":
        return None
    gen = ref.RefGen()
    try:
        import typing_extensions

        t = typing_extensions.get_type_hints(cls, include_extras=True)["x"]
        src = gen.dec(t, "x")
        ns = dict(gen.ns)
        if gen.defs:
            exec("\n\n".join(gen.defs), ns)
        f = eval("lambda x: " + src, ns)
    except Exception:
        return None
    h = lambda n: {"hole": n, "v": 1}  # noqa
    battery = [5, 5.5, True, "7", "x", None, "2020-01-02", "20200102", h("H1"), h("H2"), {"z": 3}, {"w": "q"}, {}, [], [h("H1")], {"k": h("H1")},
               "a", 1, "1.5", [1], {"a": 1}, "True", 0, "", "b"]
    for v in battery:
        try:
            exp = ("return", f(v))
        except Exception as e:  # noqa
            exp = ("raise", type(e).__name__)
        try:
            act = ("return", cls.from_dict({"x": v}).x)
        except Exception as e:  # noqa
            act = ("raise", type(e).__name__)
        same = exp[0] == act[0] and (exp[0] == "raise" or (exp[1] == act[1] and type(exp[1]) is type(act[1])))
        if not same:
            return {"confirmed": True, "input": repr({"x": v}), "expected": repr(exp), "actual": repr(act),
                    "why": f"from_dict({{'x': {v!r}}}) for x: {texpr}", "source": class_source(texpr)}
    return None


def check(pid, tier):
    t0 = time.time()
    payloads = [(pid, "union", m) for m in union_lattice(tier)]
    payloads += [(pid, "type", t) for t in LITERALS + NESTED]
    res = runner.run_pool(c11_task, payloads, chunks=2) + runner.run_pool(literal_return_task, [(pid,)], chunks=1)
    obs, crashes = [], []
    for r in res:
        if "crash" in r:
            crashes.append(r["crash"] + " @ " + r["payload"] + "\n" + r["trace"][-500:])
        else:
            obs.extend(r["obligations"])
    try:
        from . import s18optional

        obs += s18optional.all_obligations(pid)  # which member of Optional[T] the emitters convert
        from . import s20maybenone

        obs += s20maybenone.all_obligations(pid)  # the None short-circuit text and its call sites
    except Exception as e:  # noqa
        import traceback

        crashes.append(f"S18: {type(e).__name__}: {e}\n{traceback.format_exc()[-600:]}")
    return runner.finish(
        pid, tier, obs, t0,
        technique="generated union/literal helper functions (inlined into the harvested from_dict/to_dict) against UNION_DEC / UNION_ENC / LITERAL reference functions written from the property statement, symbolic execution with symbolic type(value) and per-member raise predicates (pysym, z3)",
        units=len(payloads),
        extra_cov={"unions": len(payloads), "bound": "union arity <= 3 (quick) / <= 4 (thorough), members from 15 kinds; bounded, stated",
                   "explanation": "per union: dec_strict (the property), dec_staged (regression contract pinning the listed findings), enc (exact-class members without containers)"},
        trusted={"member conversions are uninterpreted (induction hypothesis); enc: a conforming value has exactly the class of one member, a method exists iff the class has it, builtin str is total",
                 "S18+S19 precondition: type arguments are hashable; arities 0..4 (each a full proof; larger arities not covered); S19: typing.get_args(typ) returns a tuple, is_union is uninterpreted and does not raise"},
        functions=["helpers.not_none_type_arg (S18, real AST)", "helpers.is_optional (S19, real AST)", "common.expr_or_maybe_none (S20, called for real; enumeration)", "UnionUnpackerBuilder._add_body", "LiteralUnpackerBuilder._add_body", "pack_union", "pack_literal", "expr_or_maybe_none (through the texts they produce)"],
        crashes=crashes,
        bounded=[f"{o['id']}: {o['unit']}" for o in obs if o.get("bounded")],
    )


# ---------------------------------------------------------------------------------------------
# Literal helpers return the LITERAL: `==` between the input and a literal value also holds across types (True == 1 == 1.0), and the
# engine's equality is term equality, so the class of the result is pinned by a rule on the generated helper: a branch guarded by
# `value == <constant>` returns that constant (not the input that merely compares equal to it).
# ---------------------------------------------------------------------------------------------
LITRET_SRC = '''
class _LE(enum.Enum):
    A = "a"
@dataclass
class C(DataClassDictMixin):
    x: Literal[1, 2]
    y: Literal[True, False]
    z: Literal["s", 3, None] = None
    e: Literal[_LE.A, b"b"] = _LE.A
    o: Optional[Literal[0, ""]] = None
'''


def literal_return_task(payload):
    (pid,) = payload
    from . import build, g4

    src = g4.PRELUDE + LITRET_SRC
    mod, recs = build.build_module(src)
    try:
        probs, n = [], 0
        for r in recs:
            for fn in [f for f in ast.parse(r.text).body if isinstance(f, ast.FunctionDef) and f.name.startswith("__unpack_literal")]:
                for node in ast.walk(fn):
                    if not (isinstance(node, ast.If) and isinstance(node.test, ast.Compare) and len(node.test.ops) == 1 and isinstance(node.test.ops[0], ast.Eq)
                            and isinstance(node.test.left, ast.Name) and node.test.left.id == "value" and isinstance(node.test.comparators[0], ast.Constant)):
                        continue
                    const = node.test.comparators[0]
                    for st in node.body:
                        if isinstance(st, ast.Return):
                            n += 1
                            ok = isinstance(st.value, ast.Constant) and st.value.value == const.value and type(st.value.value) is type(const.value)
                            if not ok:
                                probs.append(f"{fn.name.split('__')[1]}: under `value == {ast.unparse(const)}` the helper returns `{ast.unparse(st.value)}`, not the literal")
        first = []
        for data, field, want in (({"x": True, "y": False}, "x", 1), ({"x": 1, "y": 0}, "y", False), ({"x": 2.0, "y": True}, "x", 2), ({"x": 1, "y": True, "o": False}, "o", 0)):
            try:
                got = getattr(mod.C.from_dict(data), field)
                if got != want or type(got) is not type(want):
                    first.append(f"C.from_dict({data!r}).{field} is {got!r} ({type(got).__name__}), the annotation names {want!r} ({type(want).__name__})")
            except Exception as e:  # noqa
                first.append(f"C.from_dict({data!r}) raised {type(e).__name__}: {str(e)[:100]}")
        w = {"confirmed": True, "source": src, "input": "C.from_dict({'x': True, 'y': False})", "why": first[0]} if first else None
        return {"obligations": [
            dict(id=f"{pid}.G5[literal-return]/returns_the_literal", status=("proved" if not probs else "refuted") if n else "error", unit=f"{n} `value == constant` branches of the Literal helpers",
                 detail="; ".join(sorted(set(probs)))[:500] if n else "no branch found", witness=w if probs else None),
            dict(id=f"{pid}.H5[literal-return]/cross_type_equal_inputs", status="proved" if not first else "refuted", bounded=True, unit="inputs that compare equal to a literal of another type (bounded)",
                 detail="; ".join(first)[:500], witness=w)]}
    finally:
        build.drop_module(mod)

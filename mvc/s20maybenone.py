"""S20: the None short-circuit of Optional positions (common.py:expr_or_maybe_none; called by pack.py and
unpack.py wherever a value `could_be_none`).  C11: "a null member matches only null" and a non-null value is
converted by the member's expression.

Contract on the REAL function, called for real (its result is a program text; the obligation is about what
that text denotes, decided on its parse tree):

  requires  P(new_expr): new_expr parses as one expression whose top node binds tighter than a conditional
            expression (not a bare IfExp / Lambda / NamedExpr / Yield / Starred) and spec.expression parses
            as an expression tighter than a comparison
            (a call site violating it is reported only when the real result then fails `ensures`)
  ensures   spec.could_be_none      ->  parse(result) == IfExp(test = `<spec.expression> is not None`,
                                                               body = parse(new_expr), orelse = None)
            not spec.could_be_none  ->  parse(result) == parse(new_expr)
            (`None if <expression> is None else <new_expr>` is accepted as the same denotation; any other form is
            evaluated on a value battery {None, 0, "", [], False, 0.0, 5, "x", (), {}}: a differing outcome is the
            replayed counterexample, an agreeing one makes the obligation undecided - never a violation)

  /denotation     enumeration: the function called on one expression of every shape class the grammar has at
        that precedence (name, call, method call, subscript, attribute, comprehension x3, display, binary
        operation, boolean operation, comparison, parenthesised conditional, awaited/starred excluded) x
        could_be_none in {True, False}; the precondition is shown necessary by a cover: a bare conditional as
        new_expr must NOT satisfy `ensures` (else the check is vacuous).
  /call-sites     enumeration over real call sites: pack.expr_or_maybe_none / unpack.expr_or_maybe_none are
        wrapped (in this process only; /repo untouched) while a family of classes with Optional positions of
        every constructor template is compiled; every recorded call must satisfy `requires`, and its real
        result must satisfy `ensures`.  Stated: exhaustive over the family below, not over all schemas.
"""
from __future__ import annotations

import ast

UNIT = "common.py:expr_or_maybe_none"
SHAPES = [
    "value", "f(value)", "value.isoformat()", "value['k']", "value.attr", "[g(x) for x in value]", "{k: g(v) for k, v in value.items()}",
    "{g(x) for x in value}", "(g(x) for x in value)", "[value, 1]", "(value, 1)", "{'a': value}", "value + 1", "-value", "not value", "a and b", "a or b",
    "value == 1", "value is x", "(a if c else b)", "(lambda: value)()", "f(*value)", "'text'", "cls.__mashumaro_from_dict__(value, dialect=d)",
]
BARE = ["a if c else b", "lambda: value"]
_LOOSE = (ast.IfExp, ast.Lambda, ast.NamedExpr, ast.Yield, ast.YieldFrom, ast.Starred)


def _dump(n):
    return ast.dump(n, annotate_fields=True, include_attributes=False)


def _parse(t):
    return ast.parse(t.strip(), mode="eval").body


def requires(expression, new_expr):
    try:
        n, e = _parse(new_expr), _parse(expression)
    except SyntaxError:
        return False
    if isinstance(n, _LOOSE):
        t = new_expr.strip()  # a parenthesised conditional is as tight as a name
        try:
            if not (t.startswith("(") and t.endswith(")") and _dump(_parse(t[1:-1])) == _dump(n)):
                return False
        except SyntaxError:
            return False
    return not isinstance(e, _LOOSE + (ast.Compare, ast.BoolOp)) and not (isinstance(e, ast.UnaryOp) and isinstance(e.op, ast.Not))


def ensures(expression, could_be_none, new_expr, result):
    try:
        r = _parse(result)
    except SyntaxError:
        return "the result is not an expression"
    if not could_be_none:
        return None if _dump(r) == _dump(_parse(new_expr)) else "could_be_none is false but the result is not new_expr"
    none = ast.Constant(value=None)
    want = ast.IfExp(test=ast.Compare(left=_parse(expression), ops=[ast.IsNot()], comparators=[none]), body=_parse(new_expr), orelse=none)
    want2 = ast.IfExp(test=ast.Compare(left=_parse(expression), ops=[ast.Is()], comparators=[none]), body=none, orelse=_parse(new_expr))
    return None if _dump(r) in (_dump(want), _dump(want2)) else "the result does not denote `None if <expression> is None else <new_expr>`"


_VALUES = [None, 0, "", [], False, 0.0, 5, "x", (), {}]


def semantic(fn):
    """evaluate the text the function returns for expression `value`, new_expr `f(value)`: first value whose
    outcome differs from `None if value is None else f(value)` (None when there is none)"""
    for cbn in (True, False):
        text = fn(_Spec("value", cbn), "f(value)")
        for v in _VALUES:
            if v is None and not cbn:
                continue  # without could_be_none the caller guarantees value is not None
            want = None if v is None else ("F", v)
            try:
                got = eval(text, {"f": lambda x: ("F", x), "value": v})  # the function's own template, two fixed names
            except Exception as e:  # noqa
                got = f"raised {type(e).__name__}"
            if got != want:
                return f"could_be_none={cbn}: the text {text!r} evaluates to {got!r} for value={v!r}; expected {want!r}"
    return None


class _Spec:
    def __init__(self, expression, could_be_none):
        self.expression = expression
        self.could_be_none = could_be_none


def verify_denotation(pid):
    from mashumaro.core.meta.types.common import expr_or_maybe_none

    oid = f"{pid}.S20[expr_or_maybe_none]/denotation"
    bad, n, w = [], 0, None
    for expression in ("value", "d.get('x')", "value[0]"):
        for cbn in (True, False):
            for ne in SHAPES:
                if not requires(expression, ne):
                    bad.append(f"the shape {ne!r} does not satisfy the precondition (contract error)")
                    continue
                n += 1
                try:
                    res = expr_or_maybe_none(_Spec(expression, cbn), ne)
                    p = ensures(expression, cbn, ne, res)
                except Exception as e:  # noqa
                    res, p = None, f"raised {type(e).__name__}: {e}"
                if p:
                    bad.append(p)
                    w = w or {"confirmed": True, "input": f"expr_or_maybe_none(spec(expression={expression!r}, could_be_none={cbn}), {ne!r})", "why": f"returned {res!r}: {p}"}
    cover = 0
    for ne in BARE:  # the precondition is not idle: without it the postcondition fails on the real function
        res = expr_or_maybe_none(_Spec("value", True), ne)
        if not requires("value", ne) and ensures("value", True, ne, res):
            cover += 1
    if bad and not any("contract error" in b for b in bad):
        sem = semantic(expr_or_maybe_none)
        if sem is None:  # an unrecognised but equivalent way of writing the short-circuit: not a violation
            return [dict(id=oid, status="undecided", unit=UNIT, detail="the result has an unrecognised form that evaluates correctly on the value battery: " + bad[0])]
        w = {"confirmed": True, "input": "expr_or_maybe_none(spec(expression='value', could_be_none=...), 'f(value)') evaluated", "why": sem}
        bad.append(sem)
    # vacuity guard on the oracle itself: it must reject texts that are wrong
    if ensures("value", True, "f(value)", "f(value)") is None or ensures("value", True, "f(value)", "f(value) if value else None") is None or ensures("value", False, "f(value)", "g(value)") is None:
        return [dict(id=oid, status="error", unit=UNIT, detail="vacuity guard: the postcondition accepts a wrong text")]
    # cover < len(BARE): this implementation does not need the precondition (it parenthesises / puts new_expr last); reported, not an error
    return [dict(id=oid, status="refuted" if bad else "proved", unit=UNIT + f" (enumeration: {n} calls, {cover} covers)", detail="; ".join(sorted(set(bad)))[:600], witness=w, backend="enumeration")]


FAMILY_SRC = '''
from dataclasses import dataclass, field
from datetime import date, datetime, time, timedelta, timezone
from decimal import Decimal
from enum import Enum, IntEnum
from fractions import Fraction
from ipaddress import IPv4Address
from pathlib import Path
from typing import Any, Dict, FrozenSet, Generic, List, Literal, Mapping, NamedTuple, Optional, Sequence, Set, Tuple, TypedDict, TypeVar, Union
from uuid import UUID
from mashumaro import DataClassDictMixin, pass_through
from mashumaro.config import BaseConfig
from mashumaro.types import SerializableType, SerializationStrategy

class E(Enum):
    A = "a"

class NT(NamedTuple):
    a: int
    b: Optional[date] = None

class TD(TypedDict, total=False):
    a: Optional[date]

class ST(SerializableType):
    def _serialize(self): return 1
    @classmethod
    def _deserialize(cls, v): return cls()

class Strat(SerializationStrategy):
    def serialize(self, v): return str(v)
    def deserialize(self, v): return int(v)

T = TypeVar("T")

@dataclass
class Inner(DataClassDictMixin):
    x: Optional[int] = None

@dataclass
class G(DataClassDictMixin, Generic[T]):
    g: Optional[T] = None

@dataclass
class C(DataClassDictMixin):
    a01: Optional[int] = None
    a02: Optional[date] = None
    a03: Optional[datetime] = None
    a04: Optional[Decimal] = None
    a05: Optional[UUID] = None
    a06: Optional[E] = None
    a07: Optional[List[date]] = None
    a08: Optional[Dict[str, date]] = None
    a09: Optional[Set[date]] = None
    a10: Optional[FrozenSet[int]] = None
    a11: Optional[Tuple[int, date]] = None
    a12: Optional[Tuple[date, ...]] = None
    a13: Optional[NT] = None
    a14: Optional[TD] = None
    a15: Optional[Inner] = None
    a16: Optional[Union[int, date]] = None
    a17: Optional[Literal[1, "a"]] = None
    a18: Optional[bytes] = None
    a19: Optional[bytearray] = None
    a20: Optional[Path] = None
    a21: Optional[timedelta] = None
    a22: Optional[Fraction] = None
    a23: Optional[IPv4Address] = None
    a24: Optional[ST] = None
    a25: Optional[Any] = None
    a26: Optional[Sequence[Optional[date]]] = None
    a27: Optional[Mapping[str, Optional[List[Optional[date]]]]] = None
    a28: Optional[G[date]] = None
    a29: Optional[int] = field(default=None, metadata={"serialize": str, "deserialize": int})
    a30: Optional[int] = field(default=None, metadata={"serialization_strategy": Strat()})
    a31: Optional[date] = field(default=None, metadata={"serialization_strategy": pass_through})
    a32: Optional[List[Optional[Inner]]] = None
    a33: List[Optional[date]] = field(default_factory=list)
    a34: Dict[str, Optional[Tuple[Optional[date], Optional[int]]]] = field(default_factory=dict)
    a35: Optional[time] = None
    a36: Optional[timezone] = None
    a37: Optional[float] = None
    a38: Optional[str] = None
    a39: Optional[bool] = None

@dataclass
class D(DataClassDictMixin):
    a: Optional[date] = None
    b: Optional[List[Optional[E]]] = None
    class Config(BaseConfig):
        omit_none = True
        serialize_by_alias = True
        aliases = {"a": "A"}
        code_generation_options = ["TO_DICT_ADD_OMIT_NONE_FLAG", "TO_DICT_ADD_BY_ALIAS_FLAG", "ADD_DIALECT_SUPPORT"]
'''


def verify_call_sites(pid):
    import mashumaro.core.meta.types.pack as P
    import mashumaro.core.meta.types.unpack as U
    from mashumaro.core.meta.types.common import expr_or_maybe_none as real

    from . import build

    oid = f"{pid}.S20[expr_or_maybe_none]/call-sites"
    calls = []

    def wrapped(spec, new_expr):
        res = real(spec, new_expr)
        calls.append((spec.expression, bool(spec.could_be_none), new_expr, res))
        return res

    holders = [m for m in (P, U) if getattr(m, "expr_or_maybe_none", None) is real]
    if len(holders) != 2:
        return [dict(id=oid, status="undecided", unit=UNIT, detail="pack.py / unpack.py no longer bind expr_or_maybe_none by that name")]
    for m in holders:
        m.expr_or_maybe_none = wrapped
    try:
        mod, _ = build.build_module(FAMILY_SRC)
        mod.C.from_dict(mod.C().to_dict())
        from mashumaro.codecs import BasicDecoder, BasicEncoder
        from typing import Dict, List, Optional

        for t in (Optional[mod.NT], List[Optional[mod.Inner]], Dict[str, Optional[mod.TD]], Optional[mod.G[int]]):
            BasicEncoder(t), BasicDecoder(t)
    except Exception as e:  # noqa
        import traceback

        return [dict(id=oid, status="error", unit=UNIT, detail=f"compiling the family raised {type(e).__name__}: {e} {traceback.format_exc()[-300:]}")]
    finally:
        for m in holders:
            m.expr_or_maybe_none = real
    if len(calls) < 40:
        return [dict(id=oid, status="error", unit=UNIT, detail=f"only {len(calls)} calls recorded: the wrapper is bypassed (vacuity guard)")]
    bad, w = [], None
    for expression, cbn, ne, res in calls:
        p0 = ensures(expression, cbn, ne, res)
        if p0 is None:
            continue
        if requires(expression, ne):
            continue  # the function's own behaviour: decided by /denotation
        if True:
            p = f"a call site passes new_expr={ne[:80]!r} (expression={expression!r}), which does not bind tighter than a conditional expression: the emitted `A if c else B if x is not None else None` converts None through A"
        if p:
            bad.append(p)
            w = w or {"confirmed": True, "input": f"expr_or_maybe_none(spec(expression={expression!r}, could_be_none={cbn}), {ne[:200]!r})", "why": f"returned {str(res)[:200]!r}: {p}", "source": FAMILY_SRC}
    shapes = len({type(_parse(c[2])).__name__ for c in calls if requires(c[0], c[2])})
    return [dict(id=oid, status="refuted" if bad else "proved", unit=UNIT + f" (enumeration: {len(calls)} real calls, {sum(1 for c in calls if c[1])} with could_be_none, {shapes} expression node kinds)",
                 detail="; ".join(sorted(set(bad)))[:600], witness=w, backend="enumeration")]


def all_obligations(pid):
    return verify_denotation(pid) + verify_call_sites(pid)


if __name__ == "__main__":
    for o in all_obligations("C11"):
        print(o["status"], o["id"], o["unit"], o["detail"], o.get("witness"))

"""S12: CodeBuilder.get_config(cls) sees every option exactly as the class's Config declares it.

Contract: for every option name n of BaseConfig and every dataclass K with an inner Config,
      getattr(builder.get_config(), n) == getattr(K.Config, n)   if n is defined anywhere on K.Config's MRO (object excluded)
                                        == getattr(BaseConfig, n) otherwise.
A Config need not derive from BaseConfig (documented); the levels of C10 (Config.serialization_strategy, Config.dialect) and
the options of C08 are read through this function, so a declaration it loses is a customization that silently does not win.
Enumerated over the ways a Config can be written (derives from BaseConfig / plain / plain with a plain parent / plain child
of a BaseConfig-derived parent / inherited from the dataclass's base) x all option names: exhaustive over that family.
The builders are the real ones harvested at class creation.
"""
from __future__ import annotations

from . import build, g4

FORMS = {
    "derived": ("", "class Config(BaseConfig):\n        omit_none = True\n        serialization_strategy = {datetime.date: {'serialize': _ser}}"),
    "plain": ("", "class Config:\n        omit_none = True\n        serialization_strategy = {datetime.date: {'serialize': _ser}}"),
    "plain_parent": ("class _P:\n    serialization_strategy = {datetime.date: {'serialize': _ser}}\n    serialize_by_alias = True\n",
                     "class Config(_P):\n        omit_none = True"),
    "plain_grandparent": ("class _G:\n    serialization_strategy = {datetime.date: {'serialize': _ser}}\nclass _P(_G):\n    omit_default = True\n",
                          "class Config(_P):\n        omit_none = True"),
    "derived_parent": ("class _P(BaseConfig):\n    serialization_strategy = {datetime.date: {'serialize': _ser}}\n    serialize_by_alias = True\n",
                       "class Config(_P):\n        omit_none = True"),
}


def config_task(payload):
    pid, form = payload
    from mashumaro.config import BaseConfig

    pre, cfg = FORMS[form]
    src = (g4.PRELUDE + "def _ser(v):\n    return v.toordinal()\n" + pre +
           f"@dataclass\nclass K(DataClassDictMixin):\n    d: datetime.date\n    {cfg}\n"
           "@dataclass\nclass Sub(K):\n    e: int = 0\n")
    try:
        mod, recs = build.build_module(src)
    except Exception as e:  # noqa
        return {"obligations": [dict(id=f"{pid}.S12[{form}]/builds", status="refuted", unit="class creation", detail=f"{type(e).__name__}: {e}"[:300],
                                     witness={"confirmed": True, "source": src, "why": f"{type(e).__name__}: {e}"[:300]})]}
    try:
        import datetime

        obs = []
        names = [n for n in vars(BaseConfig) if not n.startswith("__")]
        for cname in ("K", "Sub"):
            K = getattr(mod, cname)
            bs = [r.builder for r in recs if r.builder is not None and r.builder.cls is K]
            if not bs:
                obs.append(dict(id=f"{pid}.S12[{form}/{cname}]/view", status="error", detail="no builder harvested"))
                continue
            view = bs[0].get_config()
            probs = []
            declared = K.Config
            for n in names:
                defined = any(n in vars(c) for c in declared.__mro__ if c is not object)
                want = getattr(declared, n) if defined else getattr(BaseConfig, n)
                got = getattr(view, n, "<missing>")
                if got is not want and got != want:
                    probs.append(f"{n}: get_config() gives {got!r}, the Config declares {want!r}")
            w = None
            if probs:
                inst = K(datetime.date(2020, 1, 2))
                out = inst.to_dict()
                w = {"confirmed": out != {"d": 737426}, "source": src, "input": "K(date(2020, 1, 2)).to_dict()", "got": repr(out), "expected": "{'d': 737426}", "why": probs[0]}
            obs.append(dict(id=f"{pid}.S12[{form}/{cname}]/view", status="proved" if not probs else "refuted", unit=f"CodeBuilder({cname}).get_config(): {len(names)} options",
                            backend="enumeration", detail="; ".join(probs)[:500], witness=w))
        return {"obligations": obs}
    finally:
        build.drop_module(mod)


def obligations(pid):
    from . import runner

    obs, crashes = [], []
    for r in runner.run_pool(config_task, [(pid, f) for f in FORMS], chunks=1):
        if "crash" in r:
            crashes.append(r["crash"] + " @ " + r["payload"] + "\n" + r["trace"][-500:])
        else:
            obs.extend(r["obligations"])
    return obs, crashes


# ---------------------------------------------------------------------------------------------
# S8e: CodeBuilder.__get_field_alias on the real method, enumerated (independent of how the function is written;
# S8 in s3resolve.py is the symbolic contract on its AST and goes `undecided` when the function is restructured)
# ---------------------------------------------------------------------------------------------
def alias_obligations(pid):
    """alias(field) = metadata['alias'] if that is not None, else the name of an Alias among the Annotated metadata (any one of
    several), else Config.aliases.get(name), else None.  The function reads nothing else: the family below is every combination of
    {no 'alias' key, key holding None (what field_options() writes), key holding a string, key holding ''} x {plain type, one Alias,
    other metadata + two Aliases} x {Config.aliases without / with the field}."""
    import typing

    import typing_extensions
    from mashumaro.config import BaseConfig
    from mashumaro.core.meta.code.builder import CodeBuilder
    from mashumaro.types import Alias

    fn = getattr(CodeBuilder, "_CodeBuilder__get_field_alias", None)
    if fn is None:
        return [dict(id=f"{pid}.S8e[__get_field_alias]/enumerated", status="error", detail="CodeBuilder.__get_field_alias not found")]

    import inspect

    is_static = isinstance(inspect.getattr_static(CodeBuilder, "_CodeBuilder__get_field_alias"), staticmethod)

    class _B:  # (if it is an instance method) it reads nothing from self
        pass

    metas = {"nokey": {}, "none": {"alias": None, "serialize": None}, "str": {"alias": "m"}, "empty": {"alias": ""}}
    types_ = {"plain": (int, []), "one": (typing_extensions.Annotated[int, Alias("a")], ["a"]),
              "two": (typing_extensions.Annotated[int, "x", Alias("a1"), Alias("a2")], ["a1", "a2"])}
    cfgs = {"nocfg": type("C0", (BaseConfig,), {"aliases": {}}), "cfg": type("C1", (BaseConfig,), {"aliases": {"f": "c"}})}
    probs, n = [], 0
    for mk, md in metas.items():
        for tk, (ft, anns) in types_.items():
            for ck, cfg in cfgs.items():
                n += 1
                try:
                    got = fn("f", ft, md, cfg) if is_static else fn(_B(), "f", ft, md, cfg)
                except Exception as e:  # noqa
                    probs.append(f"[{mk}/{tk}/{ck}] raised {type(e).__name__}: {e}")
                    continue
                if md.get("alias") is not None:
                    ok = got == md["alias"]
                    want = repr(md["alias"])
                elif anns:
                    ok = got in anns
                    want = f"one of {anns}"
                else:
                    ok = got == cfg.aliases.get("f")
                    want = repr(cfg.aliases.get("f"))
                if not ok:
                    probs.append(f"[metadata {md!r}, {tk} Alias annotation(s), Config.aliases {cfg.aliases!r}] -> {got!r}, expected {want}")
    w = None
    if probs:
        src = ("from dataclasses import dataclass, field\nfrom typing_extensions import Annotated\nfrom mashumaro import DataClassDictMixin, field_options\nfrom mashumaro.types import Alias\n"
               "@dataclass\nclass K(DataClassDictMixin):\n    x: Annotated[int, Alias('a')] = field(metadata=field_options(serialize=str))\n")
        try:
            from . import build

            mod, _ = build.build_module(src)
            try:
                try:
                    got = repr(mod.K.from_dict({"a": 1}))
                except Exception as e:  # noqa
                    got = f"{type(e).__name__}: {e}"
                if got != "K(x=1)":
                    w = {"confirmed": True, "source": src, "input": "K.from_dict({'a': 1})", "got": got[:200], "expected": "K(x=1)", "why": probs[0]}
            finally:
                build.drop_module(mod)
        except Exception:  # noqa
            w = None
    return [dict(id=f"{pid}.S8e[__get_field_alias]/enumerated", status="proved" if not probs else "refuted", unit=f"CodeBuilder.__get_field_alias on {n} argument shapes",
                 backend="enumeration", detail="; ".join(probs)[:600], witness=w)]


# ---------------------------------------------------------------------------------------------
# S14: CodeBuilder.get_field_default_literal - the text spliced into the omit_default guard `value != <literal>`
# ---------------------------------------------------------------------------------------------
def default_literal_obligations(pid):
    """for a default value v the guard is `value != L` with L = the literal's value: contract  (w != L) == (w != v)  for every w,
    checked for w in {v itself, an equal copy, another value of the same type, None, 0} over one default of every kind the function
    distinguishes (it branches on the type of the default only) and of the kinds it does not (bound by name)."""
    import dataclasses
    import datetime
    import decimal
    import enum
    import math
    import typing

    from mashumaro.core.meta.code.builder import CodeBuilder

    class IF(enum.IntFlag):
        A = 1
        B = 2

    class FL(enum.Flag):
        R = 1
        W = 2

    class E(enum.Enum):
        X = "x"
        Y = 3

    class IE(enum.IntEnum):
        P = 1
        Q = 2

    class NT(typing.NamedTuple):
        a: int
        b: str = "s"

    @dataclasses.dataclass
    class K:
        x: int = 0

    kinds = {
        "int": (7, 8), "zero": (0, 1), "str": ("it's", "x"), "empty-str": ("", "x"), "bool": (True, False), "float": (1.5, 2.5), "inf": (float("inf"), 1.0),
        "tuple": ((1, "a"), (1, "b")), "empty-tuple": ((), (1,)), "tuple-of-dates": ((datetime.date(2020, 1, 2),), (datetime.date(2020, 1, 3),)),
        "IntFlag": (IF.A, IF.B), "IntFlag-combination": (IF.A | IF.B, IF.A), "Flag": (FL.R, FL.W), "Flag-combination": (FL.R | FL.W, FL.R),
        "Enum": (E.X, E.Y), "IntEnum": (IE.P, IE.Q), "date": (datetime.date(2020, 1, 2), datetime.date(2020, 1, 3)), "Decimal": (decimal.Decimal("1.50"), decimal.Decimal("2")),
        "NamedTuple": (NT(1), NT(2)), "list": ([1, 2], [3]), "dict": ({"a": 1}, {}), "bytes": (b"ab", b""), "frozenset": (frozenset({1}), frozenset()),
    }
    obs = []
    for kind, (v, other) in kinds.items():
        b = CodeBuilder(K)
        b.reset()
        oid = f"{pid}.S14[get_field_default_literal/{kind}]/guard"
        try:
            lit = b.get_field_default_literal(v)
            L = eval(lit, dict(b.globals))
        except Exception as e:  # noqa
            obs.append(dict(id=oid, status="refuted", unit="CodeBuilder.get_field_default_literal", detail=f"default {v!r}: {type(e).__name__}: {e}"[:300]))
            continue
        probs = []
        import copy

        for w in (v, copy.deepcopy(v), other, None, 0):
            try:
                got, want = bool(w != L), bool(w != v)
            except Exception as e:  # noqa
                probs.append(f"comparison with {w!r} raised {type(e).__name__}")
                continue
            if got != want:
                probs.append(f"default {v!r} -> literal {lit} (= {L!r}): value {w!r} != literal is {got}, value != default is {want}")
        w_ = None
        if probs:
            w_ = {"confirmed": True, "source": "", "input": f"CodeBuilder(K).get_field_default_literal({v!r})", "got": lit, "why": probs[0]}
            w_.pop("source")
        obs.append(dict(id=oid, status="proved" if not probs else "refuted", unit="CodeBuilder.get_field_default_literal", backend="enumeration",
                        detail="; ".join(probs)[:500], witness=w_))
    return obs

#!/bin/sh
# usage: tools_seed_install.sh <out dir of the agent> <worktree> <Cnn> <slug> [more Cnn...]: copy deliverables, drop the worktree, test detection
O=$1; W=$2; C=$3; SLUG=$4; shift 4
S=/verif/seeded/$C-$SLUG; mkdir -p $S; cp $O/patch.diff $O/demo.py $O/meta.json $S/
git -C /repo worktree remove --force $W 2>/dev/null
/verif/tools_seedtest.sh $S/patch.diff $C "$@" 2>&1 | grep -v "^KNOWN" | grep "exit=\|VIOLATION" | head -${LINES_MAX:-4} | cut -c1-220

#!/bin/sh
# usage: tools_seedtest.sh <patch.diff> <Cnn> [<Cnn> ...] : apply a seeded change to /repo, run the quick checks, undo
P=$1; shift
cd /repo && git apply "$P" || { echo "patch does not apply"; exit 9; }
cd /verif
export VERIF_EVIDENCE_DIR=/tmp/seedtest_evidence VERIF_REPLAY_DIR=/tmp/seedtest_replays
for c in "$@"; do ./check $c --tier ${TIER:-quick} > /tmp/seedtest_$c.log 2>&1; echo "$c exit=$? $(tail -1 /tmp/seedtest_$c.log)"; grep -m2 "^VIOLATION" /tmp/seedtest_$c.log; done
cd /repo && git checkout -- . && git status --short | head -3

#!/bin/sh
# run every claimed check (quick tier by default) on the current tree; prints one line each
cd /verif
for c in $(python3 -c "import json;print(' '.join(x['property_id'] for x in json.load(open('MANIFEST.json'))['checks']))"); do
  ./check $c --tier ${TIER:-quick} > /tmp/runall_$c.log 2>&1; echo "$c exit=$? $(tail -1 /tmp/runall_$c.log)"
done
